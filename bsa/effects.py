"""Layer A0e: which attribute names may a piece of code re-bind?  (a may-write effect analysis over the whole repository)

The alias propagation of the normal form replaces a read of `x` by `a.b.c` when `x = a.b.c` was bound earlier.  That is only the
same value when nothing evaluated in between re-binds `.b` or `.c` - directly, or inside a function that is called.  This module
computes, for every function of the loaded repository, the set of attribute NAMES it may store (`o.name = ..`, `o.name += ..`,
`del o.name`, `setattr(o, "name", ..)`), transitively through calls:

  callee resolution is by name (class-hierarchy analysis without types): `f(..)` / `o.f(..)` may reach every function or method
  of the repository that is called `f`; `X(..)` for a class of the repository reaches `X.__init__` (all classes of that name), of
  which only the stores to objects OTHER than the new instance count (the new instance cannot be the object a chain was read from);
  a call of a local name or a parameter (a callable passed in) may do anything: TOP;
  a write to an instance dictionary (`o.__dict__[..] = ..`, `.update`, `.pop`, `setattr` with a computed name) re-binds names that
  are not known statically: DYN, which conflicts with every attribute;
  a library call (a method name that no function of the repository has) is assumed not to re-bind attributes of repository objects.

The attribute names a chain depends on include, for a property, the instance attributes its getter reads.
"""
import ast

TOP = "<anything>"
DYN = "<dynamic attribute>"


def _callee_name(call):
    f = call.func
    if isinstance(f, ast.Name):
        return f.id, "name"
    if isinstance(f, ast.Attribute):
        return f.attr, "attr"
    return None, None


class Effects:
    def __init__(self, repo):
        self.funcs = {}          # name -> [FunctionDef]
        self.classes = {}        # class name -> [ClassDef]
        self.getter_reads = {}   # property name -> set of instance attributes its getters read
        self._own_body = {}      # id(FunctionDef) -> nodes of its own body (nested definitions excluded)
        for m in repo.mods.values():
            for node in ast.walk(m.tree):
                if isinstance(node, (ast.FunctionDef, ast.AsyncFunctionDef)):
                    self.funcs.setdefault(node.name, []).append(node)
                elif isinstance(node, ast.ClassDef):
                    self.classes.setdefault(node.name, []).append(node)
                    for s_ in node.body:
                        if isinstance(s_, (ast.FunctionDef, ast.AsyncFunctionDef)) and any(
                                isinstance(d, ast.Name) and d.id == "property" for d in s_.decorator_list) and s_.args.args:
                            selfn = s_.args.args[0].arg
                            rd = {x.attr for x in ast.walk(s_) if isinstance(x, ast.Attribute) and isinstance(x.value, ast.Name)
                                  and x.value.id == selfn}
                            self.getter_reads.setdefault(s_.name, set()).update(rd)
        self.direct_all, self.direct_other, self.calls = {}, {}, {}
        for fs in self.funcs.values():
            for f in fs:
                self._scan(f)
        # fixpoint
        self.all = {k: set(v) for k, v in self.direct_all.items()}
        self.other = {k: set(v) for k, v in self.direct_other.items()}
        changed = True
        rounds = 0
        while changed and rounds < 50:
            changed = False
            rounds += 1
            for fid, calls in self.calls.items():
                for (name, kind, is_self, is_ctor, unknown) in calls:
                    eff = self._call_effect(name, kind, is_ctor, unknown)
                    if not eff <= self.all[fid]:
                        self.all[fid] |= eff
                        changed = True
                    eff_o = self._call_effect_other(name) if is_self else eff
                    if not eff_o <= self.other[fid]:
                        self.other[fid] |= eff_o
                        changed = True

    # ---- per function facts
    def _body_nodes(self, f):
        out = []
        todo = list(f.body)
        while todo:
            n = todo.pop()
            out.append(n)
            for c in ast.iter_child_nodes(n):
                if isinstance(c, (ast.FunctionDef, ast.AsyncFunctionDef, ast.ClassDef, ast.Lambda)):
                    if isinstance(c, ast.Lambda):
                        todo.append(c)        # a lambda body runs when it is called; counted with its definer (over-approximation)
                    continue
                todo.append(c)
        return out

    def _scan(self, f):
        fid = id(f)
        selfn = f.args.args[0].arg if f.args.args else None
        params = {a.arg for a in f.args.posonlyargs + f.args.args + f.args.kwonlyargs}
        if f.args.vararg:
            params.add(f.args.vararg.arg)
        if f.args.kwarg:
            params.add(f.args.kwarg.arg)
        nodes = self._body_nodes(f)
        local_stores = {n.id for n in nodes if isinstance(n, ast.Name) and isinstance(n.ctx, ast.Store)}
        d_all, d_other, calls = set(), set(), []
        for n in nodes:
            if isinstance(n, ast.Attribute) and isinstance(n.ctx, (ast.Store, ast.Del)):
                d_all.add(n.attr)
                if not (isinstance(n.value, ast.Name) and n.value.id == selfn):
                    d_other.add(n.attr)
            elif isinstance(n, ast.Subscript) and isinstance(n.ctx, (ast.Store, ast.Del)) and isinstance(n.value, ast.Attribute) \
                    and n.value.attr == "__dict__":
                d_all.add(DYN)
                d_other.add(DYN)
            elif isinstance(n, ast.Call):
                name, kind = _callee_name(n)
                if name is None:
                    calls.append((None, None, False, False, True))
                    continue
                if kind == "name" and name in ("setattr", "delattr"):
                    a = n.args[1] if len(n.args) > 1 else None
                    w = a.value if isinstance(a, ast.Constant) and isinstance(a.value, str) else DYN
                    d_all.add(w)
                    if not (n.args and isinstance(n.args[0], ast.Name) and n.args[0].id == selfn):
                        d_other.add(w)
                    continue
                if kind == "attr" and isinstance(n.func.value, ast.Attribute) and n.func.value.attr == "__dict__" \
                        and name in ("update", "pop", "clear", "setdefault", "popitem", "__setitem__", "__delitem__"):
                    d_all.add(DYN)
                    d_other.add(DYN)
                    continue
                is_self = kind == "attr" and isinstance(n.func.value, ast.Name) and n.func.value.id == selfn
                # `Base.m(self, ..)`: the explicit form of a self call
                if kind == "attr" and isinstance(n.func.value, ast.Name) and n.func.value.id in self.classes and n.args \
                        and isinstance(n.args[0], ast.Name) and n.args[0].id == selfn:
                    is_self = True
                is_ctor = kind == "name" and name in self.classes
                unknown = kind == "name" and (name in params or name in local_stores) and name not in self.funcs and not is_ctor \
                    and name != "cls"
                calls.append((name, kind, is_self, is_ctor, unknown))
        self.direct_all[fid], self.direct_other[fid], self.calls[fid] = d_all, d_other, calls

    def _call_effect(self, name, kind, is_ctor, unknown):
        if unknown or name is None:
            return {TOP}
        out = set()
        if is_ctor:
            # the constructors found along the bases (by name); a base outside the repository (Exception, object) contributes nothing
            seen, todo = set(), [name]
            while todo:
                cn = todo.pop()
                if cn in seen:
                    continue
                seen.add(cn)
                for c in self.classes.get(cn, []):
                    inits = [s_ for s_ in c.body if isinstance(s_, ast.FunctionDef) and s_.name in ("__init__", "__new__")]
                    for s_ in inits:
                        out |= self.other.get(id(s_), set())
                    if not inits:
                        for b in c.bases:
                            bn = b.id if isinstance(b, ast.Name) else b.attr if isinstance(b, ast.Attribute) else None
                            if bn:
                                todo.append(bn)
            return out
        if name == "cls" and kind == "name":
            # `cls(..)` in a class method: some constructor of the repository
            for f in self.funcs.get("__init__", []):
                out |= self.other.get(id(f), set())
            return out
        for f in self.funcs.get(name, []):
            out |= self.all.get(id(f), set())
        return out

    def _call_effect_other(self, name):
        out = set()
        for f in self.funcs.get(name, []):
            out |= self.other.get(id(f), set())
        return out

    # ---- queries
    def closure(self, attrs):
        """the attribute names a read of these attributes depends on (a property reads the attributes its getter reads)"""
        out, todo = set(), list(attrs)
        while todo:
            a = todo.pop()
            if a in out:
                continue
            out.add(a)
            todo.extend(self.getter_reads.get(a, ()))
        return out

    def writes_of(self, node, selfn=None, local_callables=()):
        """attribute names that evaluating `node` (an expression or a statement, nested definitions excluded) may re-bind"""
        out = set()
        todo = [node]
        while todo:
            n = todo.pop()
            if isinstance(n, (ast.FunctionDef, ast.AsyncFunctionDef, ast.ClassDef)) and n is not node:
                continue
            if isinstance(n, ast.Attribute) and isinstance(n.ctx, (ast.Store, ast.Del)):
                out.add(n.attr)
            elif isinstance(n, ast.Subscript) and isinstance(n.ctx, (ast.Store, ast.Del)) and isinstance(n.value, ast.Attribute) \
                    and n.value.attr == "__dict__":
                out.add(DYN)
            elif isinstance(n, ast.Call):
                name, kind = _callee_name(n)
                if name is None:
                    out.add(TOP)
                elif kind == "name" and name in ("setattr", "delattr"):
                    a = n.args[1] if len(n.args) > 1 else None
                    out.add(a.value if isinstance(a, ast.Constant) and isinstance(a.value, str) else DYN)
                elif kind == "attr" and isinstance(n.func.value, ast.Attribute) and n.func.value.attr == "__dict__" \
                        and name in ("update", "pop", "clear", "setdefault", "popitem", "__setitem__", "__delitem__"):
                    out.add(DYN)
                else:
                    is_ctor = kind == "name" and name in self.classes
                    if local_callables is None:       # the caller does not know the local names: any name that is not a definition
                        import builtins
                        unknown = kind == "name" and not is_ctor and name not in self.funcs and not hasattr(builtins, name)
                    else:
                        unknown = kind == "name" and name in local_callables and not is_ctor
                    out |= self._call_effect(name, kind, is_ctor, unknown)
            elif isinstance(n, (ast.Await, ast.Yield, ast.YieldFrom)):
                out.add(TOP)
            todo.extend(ast.iter_child_nodes(n))
        return out

    def may_write(self, node, attrs, local_callables=()):
        w = self.writes_of(node, local_callables=local_callables)
        if TOP in w:
            return True
        if DYN in w and any(a != "__dict__" for a in attrs):
            return True
        return bool(w & set(attrs))


def effects_of(repo):
    e = getattr(repo, "_effects", None)
    if e is None:
        e = Effects(repo)
        repo._effects = e
    return e
