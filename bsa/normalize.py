"""A0: semantics-preserving normalisation of the loaded program, applied before any rule.

The rules of the checkers were confirmed on a reference tree whose inventory of names is frozen in
reference/inventory.json.  A function, method or module/class constant that is not in the inventory
was introduced later (extract-method, hoist-constant).  The normaliser makes such a definition
transparent by inlining it into its users, so that a rule sees the same operations whether they are
written in place or moved to a helper:

  N1  inline a call to a NEW helper (resolved through self / the class / the module) at its site:
        helper(...)            statement   -> body, result discarded
        x = helper(...)        assignment  -> body, every `return v` becomes `x = v`
        return helper(...)     return      -> body (returns stay returns)
        ... helper(...) ...    embedded    -> the return expression when the helper is one expression,
                                              otherwise hoisted into a fresh temporary first
      early returns of the helper are eliminated by moving the continuation into the branches; a helper
      whose returns cannot be eliminated that way (return inside a loop, try/finally with a tail) is
      left alone - the rule then sees an opaque call, exactly as before.
  N2  replace a NEW module-level / class-level constant by its defining expression.
  N3  fold integer arithmetic and 1-element dispatch created by N1/N2 (constant subexpressions only).

Nothing is rewritten for names that are in the inventory, so the reference tree is analysed as written.
Inlined statements keep the source positions of the helper they come from.
"""
import ast
import copy
import json
import os

INV_PATH = os.path.join(os.path.dirname(os.path.abspath(__file__)), "..", "reference", "inventory.json")
MAX_DEPTH = 4
MAX_INLINE_PER_FN = 40


class Bail(Exception):
    pass


def load_inventory():
    inv = json.load(open(INV_PATH))
    inv["functions"] = set(inv["functions"])
    inv["module_names"] = {k: set(v) for k, v in inv["module_names"].items()}
    inv["class_names"] = {k: set(v) for k, v in inv["class_names"].items()}
    inv["nested"] = set(inv.get("nested", []))
    inv["locals"] = {k: set(v) for k, v in inv.get("locals", {}).items()}
    return inv


def _has(node_or_list, types, stop=(ast.FunctionDef, ast.AsyncFunctionDef, ast.ClassDef, ast.Lambda)):
    todo = list(node_or_list) if isinstance(node_or_list, list) else [node_or_list]
    while todo:
        n = todo.pop()
        if isinstance(n, types):
            return True
        for c in ast.iter_child_nodes(n):
            if isinstance(c, stop):
                continue
            todo.append(c)
    return False


def _is_simple(e):
    """An expression that can be duplicated freely: names, attribute chains, constants."""
    if isinstance(e, (ast.Name, ast.Constant)):
        return True
    if isinstance(e, ast.Attribute):
        return _is_simple(e.value)
    return False


def _mutable_display(v):
    for n in ast.walk(v):
        if isinstance(n, (ast.Dict, ast.List, ast.Set, ast.ListComp, ast.DictComp, ast.SetComp)):
            return True
        if isinstance(n, ast.Call) and ast.unparse(n.func).split(".")[-1] in ("dict", "list", "set", "bytearray", "defaultdict", "OrderedDict",
                                                                               "deque", "Counter"):
            return True
    return False


def _is_const_expr(e):
    if isinstance(e, ast.Constant):
        return True
    if isinstance(e, (ast.DictComp, ast.ListComp)) and len(e.generators) == 1 and not e.generators[0].ifs and not e.generators[0].is_async \
            and _is_const_expr(e.generators[0].iter) and not _has(e, (ast.Call,)) or (
            isinstance(e, (ast.DictComp, ast.ListComp)) and len(e.generators) == 1 and not e.generators[0].ifs
            and isinstance(e.generators[0].iter, (ast.Tuple, ast.List)) and all(_is_const_expr(x) for x in e.generators[0].iter.elts)
            and not any(isinstance(c, ast.Call) for part in ([e.key, e.value] if isinstance(e, ast.DictComp) else [e.elt]) for c in ast.walk(part))):
        return True
    if isinstance(e, (ast.Name,)):
        return True
    if isinstance(e, ast.Attribute):
        return _is_const_expr(e.value)
    if isinstance(e, ast.UnaryOp):
        return _is_const_expr(e.operand)
    if isinstance(e, ast.BinOp):
        return _is_const_expr(e.left) and _is_const_expr(e.right)
    if isinstance(e, (ast.Tuple, ast.List, ast.Set)):
        return all(_is_const_expr(x) for x in e.elts)
    if isinstance(e, ast.Dict):
        return all(k is not None and _is_const_expr(k) for k in e.keys) and all(_is_const_expr(v) for v in e.values)
    if isinstance(e, ast.Call):
        from . import records
        if records.RECORDS is not None and records.RECORDS.info_of_call(e) is not None:
            return all(_is_const_expr(a) for a in e.args) and all(k.arg is not None and _is_const_expr(k.value) for k in e.keywords)
        # constructors of immutable values: datetime.datetime(1900, 1, 1), frozenset((..)), bytes(..), int(..)
        f = ast.unparse(e.func)
        if f in ("datetime.datetime", "datetime", "datetime.date", "datetime.timedelta", "timedelta", "frozenset",
                 "bytes", "int", "tuple", "bytes.fromhex", "re.compile"):
            return all(_is_const_expr(a) for a in e.args) and all(_is_const_expr(k.value) for k in e.keywords)
    return False


class _Subst(ast.NodeTransformer):
    def __init__(self, loads, renames):
        self.loads, self.renames = loads, renames

    def visit_Name(self, n):
        if isinstance(n.ctx, ast.Load) and n.id in self.loads:
            return copy.deepcopy(self.loads[n.id])
        if n.id in self.renames:
            return ast.copy_location(ast.Name(id=self.renames[n.id], ctx=n.ctx), n)
        return n

    def visit_arg(self, n):
        return n

    def visit_Lambda(self, n):
        shadow = {a.arg for a in n.args.args + n.args.kwonlyargs + n.args.posonlyargs}
        inner = _Subst({k: v for k, v in self.loads.items() if k not in shadow},
                       {k: v for k, v in self.renames.items() if k not in shadow})
        n.body = inner.visit(n.body)
        return n


def _fold(node):
    """Fold integer arithmetic between constants (only in statements produced by inlining)."""
    class F(ast.NodeTransformer):
        def visit_BinOp(self, n):
            self.generic_visit(n)
            if isinstance(n.left, ast.Constant) and isinstance(n.right, ast.Constant) \
                    and type(n.left.value) is int and type(n.right.value) is int:
                try:
                    v = {ast.Add: lambda a, b: a + b, ast.Sub: lambda a, b: a - b, ast.Mult: lambda a, b: a * b,
                         ast.LShift: lambda a, b: a << b if 0 <= b < 64 else None,
                         ast.FloorDiv: lambda a, b: a // b if b else None,
                         ast.Mod: lambda a, b: a % b if b else None}.get(type(n.op), lambda a, b: None)(n.left.value, n.right.value)
                except Exception:
                    v = None
                if v is not None:
                    return ast.copy_location(ast.Constant(value=v), n)
            return n

        def visit_JoinedStr(self, n):
            # f"_{'name'}" (a literal string substituted for a parameter): merge constant string fields into the literal text
            self.generic_visit(n)
            vals, changed = [], False
            for v in n.values:
                if isinstance(v, ast.FormattedValue) and v.conversion == -1 and v.format_spec is None \
                        and isinstance(v.value, ast.Constant) and type(v.value.value) is str:
                    v = ast.Constant(value=v.value.value)
                    changed = True
                if isinstance(v, ast.Constant) and vals and isinstance(vals[-1], ast.Constant):
                    vals[-1] = ast.Constant(value=vals[-1].value + v.value)
                    changed = True
                else:
                    vals.append(v)
            if not changed:
                return n
            if all(isinstance(v, ast.Constant) for v in vals):
                return ast.copy_location(ast.Constant(value="".join(v.value for v in vals)), n)
            return ast.copy_location(ast.JoinedStr(values=vals), n)
    return F().visit(node)


def _locals_of(fn):
    """names bound in the function's own scope (nested function scopes excluded)"""
    out = set()
    a = fn.args
    for x in a.posonlyargs + a.args + a.kwonlyargs:
        out.add(x.arg)
    if a.vararg:
        out.add(a.vararg.arg)
    if a.kwarg:
        out.add(a.kwarg.arg)
    todo = list(fn.body)
    while todo:
        n = todo.pop()
        if isinstance(n, (ast.FunctionDef, ast.AsyncFunctionDef, ast.ClassDef)):
            out.add(n.name)
            continue
        if isinstance(n, ast.Lambda):
            continue
        if isinstance(n, ast.Name) and isinstance(n.ctx, (ast.Store, ast.Del)):
            out.add(n.id)
        elif isinstance(n, ast.ExceptHandler) and n.name:
            out.add(n.name)
        todo.extend(ast.iter_child_nodes(n))
    return out


def _stored_names(stmts):
    out = set()
    for s in stmts:
        for n in ast.walk(s):
            if isinstance(n, ast.Name) and isinstance(n.ctx, (ast.Store, ast.Del)):
                out.add(n.id)
            elif isinstance(n, ast.ExceptHandler) and n.name:
                out.add(n.name)
    return out


def single_expr_of(body):
    """the one expression a small function body computes, or None:  `return E`;  `if C: return True else: return False` -> C;
    `if A: return False` + `return B` -> `not A and B` (B boolean-valued)"""
    body = _strip_doc(body)
    # `x = E; return f(x)`: a local bound once and read once, with nothing impure evaluated between binding and use, is its value
    while len(body) == 2 and isinstance(body[0], ast.Assign) and len(body[0].targets) == 1 and isinstance(body[0].targets[0], ast.Name) \
            and isinstance(body[1], ast.Return) and body[1].value is not None:
        from .desugar import Desugar, is_pure, _Sub
        x = body[0].targets[0].id
        uses = [n for n in ast.walk(body[1].value) if isinstance(n, ast.Name) and n.id == x]
        if len(uses) != 1 or not isinstance(uses[0].ctx, ast.Load) or any(isinstance(n, ast.Name) and n.id == x for n in ast.walk(body[0].value)):
            break
        bef = Desugar._before(body[1].value, uses[0])
        if bef is None or not all(is_pure(b_) for b_ in bef):
            break
        body = [ast.copy_location(ast.Return(value=_Sub({x: body[0].value}).visit(copy.deepcopy(body[1].value))), body[1])]
    if len(body) == 1 and isinstance(body[0], ast.Return) and body[0].value is not None:
        return body[0].value
    if len(body) == 1 and isinstance(body[0], ast.If) and len(body[0].body) == 1 and len(body[0].orelse) == 1 \
            and all(isinstance(x, ast.Return) and isinstance(x.value, ast.Constant) and isinstance(x.value.value, bool)
                    for x in (body[0].body[0], body[0].orelse[0])) and body[0].body[0].value.value is not body[0].orelse[0].value.value:
        return body[0].test if body[0].body[0].value.value else negate(body[0].test)
    if len(body) == 2 and isinstance(body[0], ast.If) and not body[0].orelse and len(body[0].body) == 1 \
            and isinstance(body[0].body[0], ast.Return) and isinstance(body[0].body[0].value, ast.Constant) \
            and body[0].body[0].value.value is False and isinstance(body[1], ast.Return) and body[1].value is not None \
            and isinstance(body[1].value, (ast.Compare, ast.BoolOp, ast.UnaryOp, ast.Call)) and not _has(body, ast.NamedExpr):
        return ast.fix_missing_locations(ast.copy_location(ast.BoolOp(op=ast.And(), values=[negate(body[0].test), body[1].value]), body[0]))
    if len(body) == 1 and isinstance(body[0], ast.If) and len(body[0].body) == 1 and len(body[0].orelse) == 1 \
            and all(isinstance(x, ast.Return) and x.value is not None for x in (body[0].body[0], body[0].orelse[0])) \
            and not _has(body, ast.NamedExpr):
        # `if A: return X else: return Y` is the conditional expression (the T1 form of `return X if A else Y`)
        return ast.fix_missing_locations(ast.copy_location(
            ast.IfExp(test=body[0].test, body=body[0].body[0].value, orelse=body[0].orelse[0].value), body[0]))
    return None


def _strip_doc(body):
    if body and isinstance(body[0], ast.Expr) and isinstance(body[0].value, ast.Constant) and isinstance(body[0].value.value, str):
        return body[1:]
    return body


def elim_returns(stmts, emit):
    """Rewrite a statement list so that no `return` remains: `return v` -> emit(v, node) and the
    statements after a returning construct move into its branches.  Returns (stmts, always_returned)."""
    out = []
    for i, s in enumerate(stmts):
        if isinstance(s, ast.Return):
            out.extend(emit(s.value, s))
            return out, True
        if isinstance(s, ast.Raise):
            out.append(s)
            return out, True
        if not _has(s, ast.Return):
            out.append(s)
            continue
        rest = stmts[i + 1:]
        if isinstance(s, ast.If):
            b, bt = elim_returns(list(s.body) + copy.deepcopy(rest), emit)
            o, ot = elim_returns(list(s.orelse) + copy.deepcopy(rest), emit)
            n = ast.copy_location(ast.If(test=s.test, body=b or [ast.copy_location(ast.Pass(), s)], orelse=o), s)
            out.append(n)
            return out, bt and ot
        if isinstance(s, (ast.With,)):
            inner, t = elim_returns(list(s.body), emit)
            if not t and rest:
                raise Bail("return inside with followed by more statements")
            out.append(ast.copy_location(ast.With(items=s.items, body=inner or [ast.copy_location(ast.Pass(), s)]), s))
            return out, t
        if isinstance(s, ast.Try):
            if s.finalbody and (_has(s.finalbody, ast.Return) or rest):
                raise Bail("return in try/finally with a tail")
            if _has(s.body, ast.Return) and (s.orelse or rest):
                # a return in the protected body: the tail would have to run only on fall-through
                body, bt = elim_returns(list(s.body), emit)
                if not bt:
                    raise Bail("return inside try body with a tail")
                orelse, ot = [], True
            else:
                body, bt = elim_returns(list(s.body), emit)
                orelse, ot = elim_returns(list(s.orelse) + rest, emit) if (s.orelse or rest) else ([], False)
                bt = bt or ot
            handlers, allt = [], True
            for h in s.handlers:
                hb, ht = elim_returns(list(h.body) + copy.deepcopy(rest), emit)
                allt = allt and ht
                handlers.append(ast.copy_location(ast.ExceptHandler(type=h.type, name=h.name,
                                                                    body=hb or [ast.copy_location(ast.Pass(), h)]), h))
            out.append(ast.copy_location(ast.Try(body=body, handlers=handlers, orelse=orelse, finalbody=s.finalbody), s))
            return out, bt and allt
        raise Bail(f"return inside {type(s).__name__}")
    return out, False


class Normalizer:
    def __init__(self, repo, inv):
        self.repo, self.inv = repo, inv
        self.counter = 0
        self.log = []            # (function qual, helper qual, site line)
        self.bailed = []         # (function qual, helper, reason)
        self.const_subst = []    # (module, name)

    # ---------------------------------------------------------------- which definitions are new
    def is_new_function(self, qual):
        return qual not in self.inv["functions"]

    def new_module_consts(self, mod):
        known = self.inv["module_names"].get(mod.name)
        out = {}
        if known is None:
            return out
        pending = []
        for name, vals in mod.assigns.items():
            if name in known or len(vals) != 1 or name.startswith("__"):
                continue
            if _is_const_expr(vals[0]):
                out[name] = vals[0]
            elif _has(vals[0], ast.Call) and not _has(vals[0], (ast.Lambda, ast.Await, ast.Yield, ast.YieldFrom, ast.NamedExpr)):
                pending.append((name, vals[0]))
        # a new constant computed by calling new helpers (`_LIMITS = _limits_of(3)`, a table built by a comprehension over such
        # calls): its defining expression is brought to normal form like a function body `return <expr>`; it counts as a constant
        # when that leaves a constant expression
        self.__dict__.setdefault("_mconst_cache", {})[mod.name] = out        # (visible to the evaluation of later ones)
        for name, val in pending:
            if self.__dict__.setdefault("_const_depth", 0) > 2:
                break
            self._const_depth += 1
            try:
                v = self.evaluate_constant(mod, name, val, out)
            except (Bail, RecursionError):
                v = None
            finally:
                self._const_depth -= 1
            if v is not None:
                out[name] = v
        # a name rebound with `global` anywhere is not a constant
        for n in ast.walk(mod.tree):
            if isinstance(n, ast.Global):
                for g in n.names:
                    out.pop(g, None)
        # a NEW module-level container (`_SEEN = {}`, `_CACHE = []`) is ONE object shared by all its users: substituting the display
        # would give every use a fresh empty container and hide what is stored in it.  It is a constant only when every use in the
        # repository is a read (lookup, iteration, membership, len, unpacking)
        for name in [k for k, v in out.items() if _mutable_display(v)]:
            if not self._only_read(mod, name):
                out.pop(name)
                self.__dict__.setdefault("shared_containers", []).append((mod.name, name))
        return out

    _READ_METHODS = ("get", "keys", "values", "items", "index", "count", "copy", "__contains__", "__getitem__", "__len__", "__iter__",
                     "issubset", "issuperset", "isdisjoint", "union", "intersection", "difference")

    def _only_read(self, mod, name):
        for m in self.repo.mods.values():
            alias = None
            if m is mod:
                alias = name
            else:
                for a, (tm, attr) in m.imports.items():
                    if attr == name and tm == mod.name:
                        alias = a
            parents = None
            for n in ast.walk(m.tree):
                hit = False
                if alias is not None and isinstance(n, ast.Name) and n.id == alias and isinstance(n.ctx, ast.Load):
                    hit = True
                elif isinstance(n, ast.Attribute) and n.attr == name and isinstance(n.value, ast.Name) \
                        and m.imports.get(n.value.id, (None, 0))[1] is None and m.imports.get(n.value.id, ("",))[0] == mod.name:
                    hit = True
                if not hit:
                    continue
                if parents is None:
                    parents = {}
                    for p_ in ast.walk(m.tree):
                        for c_ in ast.iter_child_nodes(p_):
                            parents[id(c_)] = p_
                if self._read_context(n, parents):
                    continue
                return False
        return True

    def _attr_only_read(self, attr):
        """every `<x>.attr` of the repository is a read of the container (class-level tables)"""
        for m in self.repo.mods.values():
            parents = None
            for n in ast.walk(m.tree):
                if not (isinstance(n, ast.Attribute) and n.attr == attr):
                    continue
                if not isinstance(n.ctx, ast.Load):
                    return False
                if parents is None:
                    parents = {}
                    for p_ in ast.walk(m.tree):
                        for c_ in ast.iter_child_nodes(p_):
                            parents[id(c_)] = p_
                if not self._read_context(n, parents):
                    return False
        return True

    def _read_context(self, n, parents):
        if True:
            if True:
                par = parents.get(id(n))
                if isinstance(par, ast.Subscript) and par.value is n and isinstance(par.ctx, ast.Load):
                    return True
                if isinstance(par, ast.Attribute) and par.value is n and par.attr in self._READ_METHODS:
                    gp = parents.get(id(par))
                    if isinstance(gp, ast.Call) and gp.func is par:
                        return True
                if isinstance(par, ast.Compare) and n in par.comparators and all(isinstance(o, (ast.In, ast.NotIn)) for o in par.ops):
                    return True
                if isinstance(par, (ast.For, ast.comprehension)) and par.iter is n:
                    return True
                if isinstance(par, ast.Call) and isinstance(par.func, ast.Name) and par.func.id in ("len", "sorted", "list", "tuple", "set", "dict",
                                                                                                     "frozenset", "min", "max", "sum", "any", "all",
                                                                                                     "enumerate", "zip", "reversed", "iter") \
                        and n in par.args:
                    return True
                if isinstance(par, ast.Starred) or (isinstance(par, ast.keyword) and par.arg is None) \
                        or (isinstance(par, ast.Dict) and n in par.values and par.keys[par.values.index(n)] is None):
                    return True
                return False

    def evaluate_constant(self, mod, name, val, known_consts):
        fn = ast.FunctionDef(name=f"__const_{name}", args=ast.arguments(posonlyargs=[], args=[], vararg=None, kwonlyargs=[], kw_defaults=[],
                                                                          kwarg=None, defaults=[]),
                             body=[ast.Return(value=copy.deepcopy(val))], decorator_list=[], returns=None, type_comment=None, type_params=[],
                             lineno=getattr(val, "lineno", 1), col_offset=0)
        ast.fix_missing_locations(fn)
        qual = f"{mod.name}.__const_{name}"
        saved = (getattr(self, "_local_defs", {}), getattr(self, "_nested_quals", set()), getattr(self, "_record_locals", {}))
        try:
            self.substitute_consts(mod, None, fn, known_consts, {})
            spelling(fn, None, mod)
            self.normalize_function(mod, None, fn, qual)
            self.substitute_consts(mod, None, fn, known_consts, {})
            self.alias_subst = getattr(self, "alias_subst", 0)
            self.spelling_changes = getattr(self, "spelling_changes", 0)
            self.shape_changes = getattr(self, "shape_changes", 0)
            finish(self, fn, None, mod, True, False)
        finally:
            self._local_defs, self._nested_quals, self._record_locals = saved
        body = _strip_doc(fn.body)
        if len(body) == 1 and isinstance(body[0], ast.Return) and body[0].value is not None and _is_const_expr(body[0].value) \
                and not _has(body[0].value, (ast.DictComp, ast.ListComp)):
            # (helpers used only here are dropped like any fully inlined helper: they stay in the log)
            return body[0].value
        import os
        if os.environ.get("BSA_DEBUG_CONST"):
            print("CONST", name, "->", ast.unparse(fn), getattr(self, "bailed", [])[-3:])
        return None

    def new_class_consts(self, ci):
        known = self.inv["class_names"].get(ci.qual)
        if known is None:
            return {}
        return {k: v for k, v in ci.attrs.items() if k not in known and _is_const_expr(v)
                and (not _mutable_display(v) or self._attr_only_read(k))}

    # ---------------------------------------------------------------- callee resolution
    def resolve(self, call, mod, cls, selfname):
        """-> (helper qual, FunctionDef, binding of the first parameter or None, defining module) or None"""
        f = call.func
        if isinstance(f, ast.Name) and getattr(self, "_local_defs", None) and f.id in self._local_defs:
            node, qual = self._local_defs[f.id]
            if qual not in self.inv["nested"]:
                return qual, node, None, mod
            return None
        if isinstance(f, ast.Name):
            r = self.repo.resolve(mod, f.id)
            if r is not None and r.kind == "func" and r.mod is mod:
                return f"{mod.name}.{f.id}", r.node, None, mod
            if r is not None and r.kind == "func" and self.same_globals(r.node, r.mod, mod):
                # a module-level helper of another module whose free names mean the same thing here
                return f"{r.mod.name}.{r.name}", r.node, None, mod
            return None
        if isinstance(f, ast.Attribute):
            recv = f.value
            from . import records as _rec
            R_ = _rec.RECORDS
            rinfo = None
            if R_ is not None and isinstance(recv, ast.Call):
                rinfo = R_.info_of_call(recv)
            elif R_ is not None and isinstance(recv, ast.Name) and recv.id in getattr(self, "_record_locals", {}):
                rinfo = self._record_locals[recv.id]
            if rinfo is not None and rinfo.ci is not None:
                m_ = rinfo.ci.find_method(f.attr)
                if m_ is not None and f.attr not in m_[0].props:
                    owner, node = m_
                    kind = self._kind(node)
                    if kind == "plain":
                        return f"{owner.qual}.{f.attr}", node, recv, mod if owner.mod is mod or self.same_globals(node, owner.mod, mod) else owner.mod
                    if kind == "static":
                        return f"{owner.qual}.{f.attr}", node, None, mod if owner.mod is mod or self.same_globals(node, owner.mod, mod) else owner.mod
                return None
            if isinstance(recv, ast.Name) and cls is not None and selfname and recv.id == selfname:
                r = cls.find_method(f.attr)
                if r is None:
                    return None
                owner, node = r
                if f.attr in owner.props:
                    return None
                for sub in self.repo.subs.get(cls.key, []):
                    if f.attr in sub.methods:
                        return None
                kind = self._kind(node)
                if kind == "static":
                    return f"{owner.qual}.{f.attr}", node, None, owner.mod
                return f"{owner.qual}.{f.attr}", node, recv, owner.mod
            if isinstance(recv, ast.Name):
                r = self.repo.resolve(mod, recv.id)
                if r is not None and r.kind == "class":
                    owner_ci = self.repo.class_by_node[id(r.node)]
                    m = owner_ci.find_method(f.attr)
                    if m is None:
                        return None
                    owner, node = m
                    kind = self._kind(node)
                    if kind == "static":
                        return f"{owner.qual}.{f.attr}", node, None, owner.mod
                    if kind == "class":
                        return f"{owner.qual}.{f.attr}", node, recv, owner.mod
                    return f"{owner.qual}.{f.attr}", node, "unbound", owner.mod
        return None

    def same_globals(self, fnode, hmod, mod):
        """every free (global) name of the helper is a builtin in both modules or resolves to the same definition in both"""
        import builtins
        key = (id(fnode), mod.name)
        cache = self.__dict__.setdefault("_sg_cache", {})
        if key in cache:
            return cache[key]
        # the helper's own new helpers and constants are resolved in ITS module first (they need not exist in the caller's)
        hq_ = f"{hmod.name}.{fnode.name}"
        act = self.__dict__.setdefault("_sg_active", set())
        fi_ = self.repo.funcs.get(hq_)
        if fi_ is not None and fi_.node is fnode and fi_.cls is None and hq_ not in act and self.is_new_function(hq_) \
                and hq_ not in getattr(self, "_stack_now", ()):
            act.add(hq_)
            try:
                self.ensure_normalized(hq_, fnode, {"stack": list(getattr(self, "_stack_now", ()))})
            finally:
                act.discard(hq_)
        local = _locals_of(fnode)
        ok = True
        foreign = {}
        for n in (x for b in fnode.body for x in ast.walk(b)):        # (annotations of the signature do not matter)
            if isinstance(n, (ast.Global, ast.Nonlocal)):
                ok = False
            if isinstance(n, ast.Name) and isinstance(n.ctx, ast.Load) and n.id not in local:
                a, b = self.repo.resolve(hmod, n.id), self.repo.resolve(mod, n.id)
                if a is None and b is None and hasattr(builtins, n.id):
                    continue
                if a is None or b is None or a.kind != b.kind or a.node is not b.node or (a.kind in ("ext", "module") and (a.mod, a.node) != (b.mod, b.node)):
                    # a NEW constant of the helper's own module travels with the helper as its value
                    hc = self.__dict__.setdefault("_mconst_cache", {}).get(hmod.name)
                    if hc is None:
                        hc = self.new_module_consts(hmod)
                        self._mconst_cache[hmod.name] = hc
                    from . import records as _rec
                    if a is not None and b is None and _rec.RECORDS is not None and _rec.RECORDS.names.get(n.id) is not None \
                            and isinstance(getattr(n, "ctx", None), ast.Load):
                        continue                 # a NEW record class: its simple name means the same record in every module
                    if a is not None and a.kind == "const" and a.mod is hmod and n.id in hc:
                        foreign[n.id] = hc[n.id]
                    elif a is not None and b is None and a.kind in ("func", "class") and getattr(a.mod, "name", None) in self.repo.mods \
                            and n.id not in mod.imports and n.id not in mod.funcs and n.id not in mod.assigns and n.id not in mod.class_defs:
                        # a function / class of the repository that the helper's module knows under this name and the caller's module
                        # does not bind at all: the inlined body needs the same `from <module> import <name>` the helper's module
                        # has (or the definition itself) - recorded as an import of the caller's module, where it shadows nothing
                        mod.imports[n.id] = (a.mod.name, a.name if hasattr(a, "name") else n.id)
                        self.__dict__.setdefault("imports_added", []).append((mod.name, n.id, a.mod.name))
                    else:
                        ok = False
        cache[key] = ok
        if ok and foreign:
            self.__dict__.setdefault("_foreign_consts", {})[id(fnode)] = foreign
        return ok

    @staticmethod
    def _kind(node):
        for d in node.decorator_list:
            if isinstance(d, ast.Name) and d.id == "staticmethod":
                return "static"
            if isinstance(d, ast.Name) and d.id == "classmethod":
                return "class"
            return "other"
        return "plain"

    # ---------------------------------------------------------------- one inlining
    def instantiate(self, call, hq, hnode, first, caller_names, keep=None):
        """-> (prelude statements, body statements (with returns), single expression or None)"""
        if hnode.decorator_list and self._kind(hnode) == "other":
            raise Bail("decorated helper")
        if _has(hnode.body, (ast.Yield, ast.YieldFrom, ast.Await, ast.Global, ast.Nonlocal)):
            raise Bail("generator/global")
        a = hnode.args
        if any(isinstance(x, ast.Starred) and isinstance(x.value, (ast.Tuple, ast.List)) for x in call.args):
            flat_ = []
            for x in call.args:
                flat_.extend(x.value.elts if isinstance(x, ast.Starred) and isinstance(x.value, (ast.Tuple, ast.List)) else [x])
            call.args = flat_                    # f(a, *(b, c)) is f(a, b, c)
        if a.kwarg or any(isinstance(x, ast.Starred) for x in call.args) or any(k.arg is None for k in call.keywords):
            raise Bail("star arguments")
        params = [x.arg for x in a.posonlyargs + a.args]
        n_pos = len(params)
        defaults = dict(zip(params[len(params) - len(a.defaults):], a.defaults))
        for k, d in zip(a.kwonlyargs, a.kw_defaults):
            params.append(k.arg)
            if d is not None:
                defaults[k.arg] = d
        args = list(call.args)
        bind = {}
        if first == "unbound":
            pass
        elif first is not None:
            if not params:
                raise Bail("no self parameter")
            bind[params[0]] = first
            params = params[1:]
            n_pos -= 1
        if a.vararg is not None:
            # `*rest` receives the surplus positional arguments as a tuple
            bind[a.vararg.arg] = ast.Tuple(elts=args[n_pos:], ctx=ast.Load())
            args = args[:n_pos]
        if len(args) > n_pos:
            raise Bail("too many arguments")
        for p, v in zip(params, args):
            bind[p] = v
        for k in call.keywords:
            if k.arg not in params or k.arg in bind:
                raise Bail("bad keyword")
            bind[k.arg] = k.value
        for p in params:
            if p not in bind:
                if p in defaults:
                    bind[p] = defaults[p]
                else:
                    raise Bail("missing argument")
        body = copy.deepcopy(_strip_doc(hnode.body))
        fc = getattr(self, "_foreign_consts", {}).get(id(hnode))
        if fc:
            loc_ = _locals_of(hnode)

            class FC(ast.NodeTransformer):
                def visit_Name(self_, n):
                    if isinstance(n.ctx, ast.Load) and n.id in fc and n.id not in loc_:
                        return ast.copy_location(copy.deepcopy(fc[n.id]), n)
                    return n
            body = [FC().visit(b_) for b_ in body]
        stored = _stored_names(body)
        uses = {}
        for s in body:
            for n in ast.walk(s):
                if isinstance(n, ast.Name) and isinstance(n.ctx, ast.Load):
                    uses[n.id] = uses.get(n.id, 0) + 1
        self.counter += 1
        tag = self.counter
        loads, renames, prelude = {}, {}, []
        for p, v in bind.items():
            if p == keep and isinstance(v, ast.Name) and v.id == p:
                continue          # identity binding: the caller's variable of the same name carries the value in
            if p not in stored and (_is_simple(v) or _simple_val(v) or (uses.get(p, 0) <= 1 and not _has(v, ast.Call))) \
                    and (isinstance(v, (ast.Name, ast.Constant)) or deferrable(p, v, body, _locals_of(hnode), getattr(self.repo.funcs.get(hq), "mod", None))):
                # (by-name substitution: the argument is evaluated where the parameter is read - sound only when nothing the
                #  helper does before that read can change what the argument evaluates to)
                loads[p] = v
                continue
            new = p if p not in caller_names else f"{p}__i{tag}"
            renames[p] = new
            asg = ast.Assign(targets=[ast.Name(id=new, ctx=ast.Store())], value=copy.deepcopy(v))
            prelude.append(ast.fix_missing_locations(ast.copy_location(asg, call)))
        for name in stored:
            if name in bind:
                continue
            if name in caller_names and name != keep:
                renames[name] = f"{name}__i{tag}"
        sub = _Subst(loads, renames)
        body = [sub.visit(s) for s in body]
        if _has(body, (ast.For,)) and _has(body, ast.Return):
            # a loop over a table that came in as an argument is a literal table now: unrolling it first lets the early returns
            # inside it be eliminated like any other
            tmpfn = ast.FunctionDef(name="__inl", args=ast.arguments(posonlyargs=[], args=[], vararg=None, kwonlyargs=[], kw_defaults=[],
                                                                       kwarg=None, defaults=[]), body=body, decorator_list=[], returns=None,
                                    type_comment=None, type_params=[], lineno=getattr(hnode, "lineno", 1), col_offset=0)
            ast.fix_missing_locations(tmpfn)
            spelling(tmpfn)
            body = tmpfn.body
        single = single_expr_of(body) if not prelude else None
        return prelude, body, single

    # ---------------------------------------------------------------- statement rewriting
    def header_exprs(self, s):
        if isinstance(s, (ast.Expr, ast.Return)):
            return [s.value] if s.value is not None else []
        if isinstance(s, ast.Assign):
            return [s.value] + list(s.targets)
        if isinstance(s, ast.AugAssign):
            return [s.value]
        if isinstance(s, ast.AnnAssign):
            return [s.value] if s.value is not None else []
        if isinstance(s, ast.If):
            return [s.test]
        if isinstance(s, ast.While):
            return [s.test]           # only one-expression helpers are substituted there (splice refuses anything else)
        if isinstance(s, ast.For):
            return [s.iter]
        if isinstance(s, ast.With):
            return [it.context_expr for it in s.items]
        if isinstance(s, (ast.Raise,)):
            return [x for x in (s.exc, s.cause) if x is not None]
        if isinstance(s, ast.Assert):
            return [s.test]
        return []

    def find_site(self, s, fctx):
        for e in self.header_exprs(s):
            inner_scope = set()
            for n in ast.walk(e):
                if isinstance(n, (ast.ListComp, ast.SetComp, ast.DictComp, ast.GeneratorExp, ast.Lambda)):
                    for x in ast.walk(n):
                        if x is not n:
                            inner_scope.add(id(x))
            # (a call inside a comprehension / lambda is a site too: only a one-expression helper can be substituted there,
            # rewrite_stmt refuses to hoist statements out of a conditionally or repeatedly evaluated position)
            calls = [n for n in ast.walk(e) if isinstance(n, ast.Call)]
            calls.sort(key=lambda c: (getattr(c, "end_lineno", 0), getattr(c, "end_col_offset", 0)))
            for c in calls:
                r = self.resolve(c, fctx["mod"], fctx["cls"], fctx["self"])
                if r is None:
                    continue
                hq, hnode, first, hmod = r
                if (not self.is_new_function(hq) and ".<nested>" not in hq and hq not in getattr(self, "_nested_quals", ())) \
                        or hq in fctx["stack"] or hmod is not fctx["mod"]:
                    continue
                if id(c) in fctx["skip"]:
                    continue
                return c, hq, hnode, first
        return None

    def rewrite_stmt(self, s, fctx):
        """-> list of statements replacing s (helpers inlined), recursing into compound bodies."""
        for fld in ("body", "orelse", "finalbody"):
            if isinstance(getattr(s, fld, None), list) and not isinstance(s, (ast.FunctionDef, ast.AsyncFunctionDef, ast.ClassDef)):
                setattr(s, fld, self.rewrite_block(getattr(s, fld), fctx))
        if isinstance(s, ast.Try):
            for h in s.handlers:
                h.body = self.rewrite_block(h.body, fctx)
        if isinstance(s, (ast.FunctionDef, ast.AsyncFunctionDef)) and fctx.get("depth", 0) < 2:
            # a closure of the function: its calls of new helpers are inlined as well (`self` and the enclosing locals are its
            # free variables, so the same bindings apply); its own parameters and locals shadow the enclosing names
            inner = dict(fctx, names=set(fctx["names"]) | _locals_of(s), depth=fctx.get("depth", 0) + 1)
            shadow = _locals_of(s)
            if fctx["self"] is None or fctx["self"] not in shadow:
                s.body = self.rewrite_block(s.body, inner)
                fctx["budget"] = inner["budget"]
            return [s]
        if isinstance(s, (ast.FunctionDef, ast.AsyncFunctionDef, ast.ClassDef)):
            return [s]
        if isinstance(s, ast.For) and isinstance(s.iter, ast.Call) and not s.orelse:
            g = self.inline_generator(s, fctx)
            if g is not None:
                return self.rewrite_block(g, fctx)
        if isinstance(s, ast.If):
            g = self.inline_loop_decider(s, fctx)
            if g is not None:
                return self.rewrite_block(g, fctx)
        pre = []
        for _ in range(8):
            site = self.find_site(s, fctx)
            if site is None:
                break
            c, hq, hnode, first = site
            if fctx["budget"] <= 0:
                break
            if isinstance(s, ast.If) and isinstance(s.test, ast.BoolOp) and isinstance(s.test.op, ast.And) and not s.orelse:
                # the call sits in a later operand of `a and b`: split into nested ifs first, so that hoisting the helper's
                # statements keeps the short-circuit (they run only when the earlier operands were true)
                k = next((i for i, v in enumerate(s.test.values) if any(n is c for n in ast.walk(v))), 0)
                body0 = [x for x in _strip_doc(hnode.body)]
                multi = not (len(body0) == 1 and isinstance(body0[0], ast.Return))
                if k > 0 and multi:
                    outer = s.test.values[:k]
                    inner = s.test.values[k:]
                    it_ = inner[0] if len(inner) == 1 else ast.copy_location(ast.BoolOp(op=ast.And(), values=inner), s.test)
                    ot_ = outer[0] if len(outer) == 1 else ast.copy_location(ast.BoolOp(op=ast.And(), values=outer), s.test)
                    inner_if = ast.copy_location(ast.If(test=it_, body=s.body, orelse=[]), s)
                    s.test, s.body = ot_, self.rewrite_block([inner_if], fctx)
                    continue
            try:
                keep = None
                if isinstance(s, ast.Assign) and s.value is c and len(s.targets) == 1 and isinstance(s.targets[0], ast.Name):
                    tname = s.targets[0].id
                    hp = [x.arg for x in hnode.args.posonlyargs + hnode.args.args]
                    if first is not None and first != "unbound":
                        hp = hp[1:]
                    mentions = []
                    for i_, a in enumerate(c.args):
                        if any(isinstance(n, ast.Name) and n.id == tname for n in ast.walk(a)):
                            mentions.append(isinstance(a, ast.Name) and i_ < len(hp) and hp[i_] == tname)
                    for k in c.keywords:
                        if any(isinstance(n, ast.Name) and n.id == tname for n in ast.walk(k.value)):
                            mentions.append(isinstance(k.value, ast.Name) and k.arg == tname)
                    if all(mentions):
                        # `x = h(..)` / `x = h(x)` with the parameter also called x: the callee's x IS the target
                        keep = tname
                self.ensure_normalized(hq, hnode, fctx)
                prelude, body, single = self.instantiate(c, hq, hnode, first, fctx["names"], keep)
                if single is None or prelude:
                    # statements of the helper will run in front of this statement: only sound when the call is evaluated
                    # unconditionally and nothing with an effect is evaluated before it
                    from .desugar import Desugar as _Dq, is_pure as _pq
                    root = next((e_ for e_ in self.header_exprs(s) if any(x is c for x in ast.walk(e_))), None)
                    bef = _Dq._before(root, c) if root is not None else None
                    if bef is None:
                        raise Bail("call site is evaluated conditionally")
                    impure = [b_ for b_ in bef if not _pq(b_)]
                    if impure:
                        # what is evaluated before the call and may have an effect keeps its place: it is bound to a temporary
                        # in front of the helper's statements (in evaluation order)
                        if isinstance(s, (ast.While,)) or not isinstance(s, (ast.Assign, ast.AugAssign, ast.Expr, ast.Return, ast.If)):
                            raise Bail("call site is evaluated after an effect")
                        if isinstance(s, ast.AugAssign) or (isinstance(s, ast.Assign) and any(b_ is t_ for b_ in impure for t_ in s.targets)):
                            raise Bail("call site is evaluated after an effect")
                        for b_ in impure:
                            self.counter += 1
                            tmp = f"__pre{self.counter}"
                            fctx["names"].add(tmp)
                            pre.append(ast.fix_missing_locations(ast.copy_location(
                                ast.Assign(targets=[ast.Name(id=tmp, ctx=ast.Store())], value=b_, lineno=getattr(s, "lineno", 1)), s)))
                            self._replace(s, b_, ast.copy_location(ast.Name(id=tmp, ctx=ast.Load()), b_))
                res = self.splice(s, c, prelude, body, single, fctx, hq)
            except Bail as e:
                self.bailed.append((fctx["qual"], hq, str(e)))
                fctx["skip"].add(id(c))
                continue
            fctx["budget"] -= 1
            self.log.append((fctx["qual"], hq, getattr(s, "lineno", 0)))
            fctx["inlined"].add(hq)
            if res[1] is None:
                # the statement dissolved into the helper body: normalise the result (nested helpers)
                fctx["stack"].append(hq)
                out = self.rewrite_block(res[0], fctx)
                fctx["stack"].pop()
                return pre + out
            fctx["stack"].append(hq)
            pre.extend(self.rewrite_block(res[0], fctx))
            fctx["stack"].pop()
            s = res[1]
        return pre + [s]

    def inline_loop_decider(self, s, fctx):
        """G2: `if H(..): A` (or `if not H(..): A`) where the NEW helper H is `<statements>; <loop .. return CONST ..>; return CONST'`:
        the helper's body with each `return <const selecting A>` inside the loop replaced by `A; break`, provided the other
        constant selects nothing (no else branch) - the decision is taken where the helper took it."""
        t, pol = s.test, True
        if isinstance(t, ast.UnaryOp) and isinstance(t.op, ast.Not):
            t, pol = t.operand, False
        if not isinstance(t, ast.Call) or s.orelse:
            return None
        r = self.resolve(t, fctx["mod"], fctx["cls"], fctx["self"])
        if r is None:
            return None
        hq, hnode, first, hmod = r
        if not self.is_new_function(hq) or hq in fctx["stack"] or hmod is not fctx["mod"] or fctx["budget"] <= 0:
            return None
        body0 = _strip_doc(hnode.body)
        loops = [x for x in body0 if isinstance(x, (ast.While, ast.For))]
        if len(loops) != 1 or not body0 or not isinstance(body0[-1], ast.Return) or body0[-1].value is None \
                or not isinstance(body0[-1].value, ast.Constant) or body0[-2:-1] != [loops[0]] or loops[0].orelse:
            return None
        if any(_has([x], ast.Return) for x in body0 if x is not loops[0] and x is not body0[-1]):
            return None
        if bool(body0[-1].value.value) is pol:
            return None           # the after-loop return selects A: both exits of the loop would reach it
        try:
            self.ensure_normalized(hq, hnode, fctx)
            prelude, body, _single = self.instantiate(t, hq, hnode, first, fctx["names"])
        except Bail as e:
            return None
        lp = next((x for x in body if isinstance(x, (ast.While, ast.For))), None)
        if lp is None or not isinstance(body[-1], ast.Return):
            return None
        ok = [True]

        def rewrite(stmts):
            out = []
            for i, st in enumerate(stmts):
                if isinstance(st, ast.Return):
                    if st.value is None or not isinstance(st.value, ast.Constant) or i != len(stmts) - 1:
                        ok[0] = False
                        return stmts
                    if bool(st.value.value) is pol:
                        out.extend(copy.deepcopy(b) for b in s.body)
                    out.append(ast.copy_location(ast.Break(), st))
                elif isinstance(st, ast.If):
                    st.body = rewrite(st.body)
                    st.orelse = rewrite(st.orelse)
                    out.append(st)
                elif _has([st], ast.Return):
                    ok[0] = False
                    return stmts
                else:
                    out.append(st)
            return out
        lp.body = rewrite(lp.body)
        if not ok[0]:
            return None
        fctx["names"] |= _stored_names(prelude) | _stored_names(body)
        fctx["budget"] -= 1
        self.log.append((fctx["qual"], hq, getattr(s, "lineno", 0)))
        fctx["inlined"].add(hq)
        return [self._mark(ast.fix_missing_locations(x), hq) for x in prelude + body[:-1]]

    def inline_generator(self, s, fctx):
        """G1: `for T in gen(args): BODY` with gen a NEW generator function whose yields are plain `yield E` statements and which
        has no `return`: the generator's body with every `yield E` replaced by `T = E; BODY` (BODY without break/continue)."""
        r = self.resolve(s.iter, fctx["mod"], fctx["cls"], fctx["self"])
        if r is None:
            return None
        hq, hnode, first, hmod = r
        if not self.is_new_function(hq) or hq in fctx["stack"] or hmod is not fctx["mod"] or fctx["budget"] <= 0:
            return None
        body0 = _strip_doc(hnode.body)
        ys = [n for n in ast.walk(hnode) if isinstance(n, (ast.Yield, ast.YieldFrom))]
        if not ys or any(isinstance(n, ast.YieldFrom) for n in ys) or _has(body0, (ast.Return, ast.Await, ast.Global, ast.Nonlocal)):
            return None
        stmt_yields = [n for n in ast.walk(hnode) if isinstance(n, ast.Expr) and isinstance(n.value, ast.Yield)]
        if len(stmt_yields) != len(ys) or any(y.value is None for y in ys):
            return None
        own = []
        todo = list(s.body)
        while todo:
            n = todo.pop()
            if isinstance(n, (ast.For, ast.While, ast.FunctionDef, ast.AsyncFunctionDef, ast.Lambda, ast.ClassDef)):
                continue
            own.append(n)
            todo.extend(ast.iter_child_nodes(n))
        if any(isinstance(n, (ast.Break, ast.Continue)) for n in own):
            return None
        fake = copy.deepcopy(hnode)
        for n in ast.walk(fake):
            if isinstance(n, ast.Expr) and isinstance(n.value, ast.Yield):
                n.value = ast.copy_location(ast.Call(func=ast.Name(id="__yield__", ctx=ast.Load()), args=[n.value.value], keywords=[]), n.value)
        try:
            self.ensure_normalized(hq, hnode, fctx)
            prelude, body, _single = self.instantiate(s.iter, hq, fake, first, fctx["names"])
        except Bail as e:
            self.bailed.append((fctx["qual"], hq, str(e)))
            return None
        fctx["names"] |= _stored_names(prelude) | _stored_names(body)

        class Y(ast.NodeTransformer):
            def visit_Expr(self_, n):
                if isinstance(n.value, ast.Call) and isinstance(n.value.func, ast.Name) and n.value.func.id == "__yield__":
                    bind = ast.Assign(targets=[copy.deepcopy(s.target)], value=n.value.args[0], lineno=n.lineno)
                    return [ast.copy_location(bind, n)] + [copy.deepcopy(b) for b in s.body]
                return n
        out = []
        for b in prelude + body:
            r_ = Y().visit(b)
            out.extend(r_ if isinstance(r_, list) else [r_])
        fctx["budget"] -= 1
        self.log.append((fctx["qual"], hq, getattr(s, "lineno", 0)))
        fctx["inlined"].add(hq)
        return [self._mark(ast.fix_missing_locations(x), hq) for x in out]

    def splice(self, s, c, prelude, body, single, fctx, hq):
        """-> (statements before, remaining statement or None)"""
        fctx["names"] |= _stored_names(prelude) | _stored_names(body)
        mark = lambda ss: [self._mark(x, hq) for x in ss]
        if isinstance(s, ast.Return) and s.value is c:
            tail = [] if (body and isinstance(body[-1], (ast.Return, ast.Raise))) else \
                [ast.copy_location(ast.Return(value=ast.copy_location(ast.Constant(value=None), s)), s)]
            return mark(prelude + [_fold(b) for b in body] + tail), None
        if isinstance(s, ast.Expr) and s.value is c:
            def emit(v, node):
                if v is not None and _has(v, ast.Call):
                    return [ast.copy_location(ast.Expr(value=v), node)]
                return []
            out, _ = elim_returns(body, emit)
            out = [_fold(b) for b in out] or [ast.copy_location(ast.Pass(), s)]
            return mark(prelude + out), None
        if isinstance(s, ast.Assign) and s.value is c and len(s.targets) == 1 and \
                (isinstance(s.targets[0], ast.Name) or _is_simple(s.targets[0]) or (
                    isinstance(s.targets[0], ast.Tuple) and all(isinstance(t, ast.Name) for t in s.targets[0].elts))):
            tgt = s.targets[0]

            def emit(v, node):
                val = v if v is not None else ast.copy_location(ast.Constant(value=None), node)
                if isinstance(tgt, ast.Name) and isinstance(val, ast.Name) and val.id == tgt.id:
                    return []
                return [ast.copy_location(ast.Assign(targets=[copy.deepcopy(tgt)], value=val, lineno=node.lineno), node)]
            full = body + [ast.copy_location(ast.Return(value=None), s)]
            out, _ = elim_returns(full, emit)
            return mark(prelude + ([_fold(b) for b in out] or [ast.copy_location(ast.Pass(), s)])), None
        if single is not None:
            self._replace(s, c, _fold(copy.deepcopy(single)))
            return [], s
        if isinstance(s, ast.While):
            raise Bail("call in a loop test")
        # hoist into a temporary
        self.counter += 1
        tmp = f"__inl{self.counter}"
        fctx["names"].add(tmp)
        tname = ast.copy_location(ast.Name(id=tmp, ctx=ast.Store()), c)

        def emit(v, node):
            val = v if v is not None else ast.copy_location(ast.Constant(value=None), node)
            return [ast.copy_location(ast.Assign(targets=[copy.deepcopy(tname)], value=val, lineno=node.lineno), node)]
        full = body + [ast.copy_location(ast.Return(value=None), s)]
        out, _ = elim_returns(full, emit)
        self._replace(s, c, ast.copy_location(ast.Name(id=tmp, ctx=ast.Load()), c))
        return mark(prelude + [_fold(b) for b in out]), s

    @staticmethod
    def _mark(stmt, hq):
        for n in ast.walk(stmt):
            if isinstance(n, ast.stmt) and not hasattr(n, "_inl"):
                n._inl = hq
        ast.fix_missing_locations(stmt)
        return stmt

    @staticmethod
    def _replace(root, old, new):
        for parent in ast.walk(root):
            for fld, val in ast.iter_fields(parent):
                if val is old:
                    setattr(parent, fld, new)
                    return
                if isinstance(val, list):
                    for i, x in enumerate(val):
                        if x is old:
                            val[i] = new
                            return
        raise Bail("call site not found")

    def rewrite_block(self, stmts, fctx):
        out = []
        i = 0
        while i < len(stmts):
            s = stmts[i]
            if i + 1 < len(stmts):
                g = self.inline_search(s, stmts[i + 1], stmts[i + 2:], fctx)
                if g is not None:
                    out.extend(self.rewrite_block(g, fctx))
                    i += 2
                    continue
            out.extend(self.rewrite_stmt(s, fctx))
            i += 1
        return out

    def inline_search(self, s, nxt, rest, fctx):
        """G3: `p = H(..)` + `if p is not None: A` where the NEW helper H is `<loop .. return E ..>; return None` and p is used
        nowhere else: H's loop with each `return E` replaced by `p = E; A; break` (what is found is used where it is found)."""
        if not (isinstance(s, ast.Assign) and len(s.targets) == 1 and isinstance(s.targets[0], ast.Name) and isinstance(s.value, ast.Call)
                and isinstance(nxt, ast.If) and not nxt.orelse):
            return None
        pn = s.targets[0].id
        t = nxt.test
        if not (isinstance(t, ast.Compare) and len(t.ops) == 1 and isinstance(t.ops[0], ast.IsNot) and isinstance(t.left, ast.Name)
                and t.left.id == pn and isinstance(t.comparators[0], ast.Constant) and t.comparators[0].value is None):
            return None
        if any(isinstance(n, ast.Name) and n.id == pn for x in rest for n in ast.walk(x)):
            return None
        r = self.resolve(s.value, fctx["mod"], fctx["cls"], fctx["self"])
        if r is None:
            return None
        hq, hnode, first, hmod = r
        if not self.is_new_function(hq) or hq in fctx["stack"] or hmod is not fctx["mod"] or fctx["budget"] <= 0:
            return None
        body0 = _strip_doc(hnode.body)
        if len(body0) < 2 or not isinstance(body0[-2], (ast.For, ast.While)) or body0[-2].orelse or not isinstance(body0[-1], ast.Return) \
                or not (body0[-1].value is None or isinstance(body0[-1].value, ast.Constant) and body0[-1].value.value is None) \
                or any(_has([x], ast.Return) for x in body0[:-2]):
            return None
        try:
            self.ensure_normalized(hq, hnode, fctx)
            prelude, body, _single = self.instantiate(s.value, hq, hnode, first, fctx["names"])
        except Bail:
            return None
        lp = body[-2] if len(body) >= 2 and isinstance(body[-2], (ast.For, ast.While)) else None
        if lp is None:
            return None
        ok = [True]

        def rewrite(stmts_):
            out_ = []
            for j, st in enumerate(stmts_):
                if isinstance(st, ast.Return):
                    if st.value is None or j != len(stmts_) - 1 or (isinstance(st.value, ast.Constant) and st.value.value is None):
                        ok[0] = False
                        return stmts_
                    out_.append(ast.copy_location(ast.Assign(targets=[ast.Name(id=pn, ctx=ast.Store())], value=st.value, lineno=st.lineno), st))
                    out_.extend(copy.deepcopy(b) for b in nxt.body)
                    out_.append(ast.copy_location(ast.Break(), st))
                elif isinstance(st, ast.If):
                    st.body = rewrite(st.body)
                    st.orelse = rewrite(st.orelse)
                    out_.append(st)
                elif _has([st], ast.Return):
                    ok[0] = False
                    return stmts_
                else:
                    out_.append(st)
            return out_
        lp.body = rewrite(lp.body)
        if not ok[0]:
            return None
        fctx["names"] |= _stored_names(prelude) | _stored_names(body)
        fctx["budget"] -= 1
        self.log.append((fctx["qual"], hq, getattr(s, "lineno", 0)))
        fctx["inlined"].add(hq)
        return [self._mark(ast.fix_missing_locations(x), hq) for x in prelude + body[:-1]]

    def ensure_normalized(self, hq, hnode, fctx):
        """a helper is itself brought to normal form (its own new helpers inlined) before its body is copied into a caller"""
        done = self.__dict__.setdefault("_done", set())
        if hq in done or hq in fctx["stack"]:
            return
        fi = self.repo.funcs.get(hq)
        if fi is None or fi.node is not hnode:
            return
        saved = (getattr(self, "_local_defs", {}), getattr(self, "_nested_quals", set()), getattr(self, "_record_locals", {}))
        try:
            self.normalize_function(fi.mod, fi.cls, fi.node, hq)
            self.substitute_consts_of(fi)
        except RecursionError:
            pass
        finally:
            self._local_defs, self._nested_quals, self._record_locals = saved

    def inline_new_properties(self, fn, cls, selfname, fctx):
        """N1p: `self.P` where P is a NEW read-only property whose getter is one `return <expr>` -> that expression"""
        norm = self
        cands = {}
        for k in cls.mro():
            if not hasattr(k, "props"):
                continue
            for name, d in k.props.items():
                g = d.get("get")
                if g is None or "set" in d or name in cands or f"{k.qual}.{name}" in self.inv["functions"]:
                    continue
                expr_ = single_expr_of(copy.deepcopy(g.body))
                if expr_ is not None and g.args.args \
                        and not any(name in sub.props or name in sub.methods for sub in self.repo.subs.get(k.key, []) if sub is not k):
                    cands[name] = (g.args.args[0].arg, expr_, f"{k.qual}.{name}")
        if not cands:
            return

        class P(ast.NodeTransformer):
            depth = 0

            def visit_Attribute(self_, n):
                self_.generic_visit(n)
                if isinstance(n.ctx, ast.Load) and isinstance(n.value, ast.Name) and n.value.id == selfname and n.attr in cands and self_.depth < 3:
                    sname, expr, q = cands[n.attr]
                    e = copy.deepcopy(expr)
                    if sname != selfname:
                        e = _Subst({}, {sname: selfname}).visit(e)
                    norm.log.append((fctx["qual"], q, getattr(n, "lineno", 0)))
                    fctx["inlined"].add(q)
                    self_.depth += 1
                    try:
                        return ast.copy_location(self_.visit(e), n)
                    finally:
                        self_.depth -= 1
                return n
        fn.body = [ast.fix_missing_locations(P().visit(b)) for b in fn.body]

    def substitute_consts_of(self, fi):
        cache = self.__dict__.setdefault("_mconst_cache", {})
        if fi.mod.name not in cache:
            cache[fi.mod.name] = self.new_module_consts(fi.mod)
        cconsts = {}
        if fi.cls is not None:
            for k in fi.cls.mro():
                if hasattr(k, "attrs"):
                    for n, v in self.new_class_consts(k).items():
                        cconsts.setdefault(n, v)
        self.substitute_consts(fi.mod, fi.cls, fi.node, cache[fi.mod.name], cconsts)

    # ---------------------------------------------------------------- drivers
    def normalize_function(self, mod, cls, fn, qual):
        done = self.__dict__.setdefault("_done", set())
        if qual in done:
            return set()
        done.add(qual)
        fi_ = self.repo.funcs.get(qual)
        if fi_ is not None and fi_.node is fn:
            self.substitute_consts_of(fi_)        # new constants first: a table or record constant may expose helper calls
            if os.environ.get("BSA_ALIAS", "1") != "0":
                self.spelling_changes = getattr(self, "spelling_changes", 0) + spelling(fn, cls, mod)   # (a substituted table is unrolled)
        a = fn.args
        params = [x.arg for x in a.posonlyargs + a.args]
        selfname = params[0] if (cls is not None and params and self._kind(fn) in ("plain", "other", "class")) else None
        fctx = {"mod": mod, "cls": cls, "self": selfname, "stack": [qual], "names": _locals_of(fn), "skip": set(),
                "qual": qual, "budget": MAX_INLINE_PER_FN, "inlined": set()}
        # nested function definitions of this function (closures): a NEW one is transparent like any new helper; its free
        # variables are the enclosing function's own names, so no renaming is needed for them
        self._local_defs, self._nested_quals = {}, set()
        # locals bound exactly once, to the construction of a NEW record class
        from . import records as _rec
        self._record_locals = {}
        if _rec.RECORDS is not None:
            st_count = {}
            for n in ast.walk(fn):
                if isinstance(n, ast.Name) and isinstance(n.ctx, (ast.Store, ast.Del)):
                    st_count[n.id] = st_count.get(n.id, 0) + 1
            for n in ast.walk(fn):
                if isinstance(n, ast.Assign) and len(n.targets) == 1 and isinstance(n.targets[0], ast.Name) and st_count.get(n.targets[0].id) == 1:
                    inf = _rec.RECORDS.info_of_call(n.value)
                    if inf is not None:
                        self._record_locals[n.targets[0].id] = inf
        for n in ast.walk(fn):
            if n is not fn and isinstance(n, (ast.FunctionDef, ast.AsyncFunctionDef)):
                q = f"{qual}.{n.name}"
                # only direct children scopes (defined in fn's own body, at any statement depth but not inside another def)
                self._local_defs[n.name] = (n, q)
                if q not in self.inv["nested"]:
                    self._nested_quals.add(q)
        fn.body = self.rewrite_block(fn.body, fctx)
        if cls is not None and selfname:
            self.inline_new_properties(fn, cls, selfname, fctx)
        # a new nested function that is no longer referenced (every call was inlined) is dropped
        for name, (node, q) in list(self._local_defs.items()):
            if q not in self._nested_quals or q not in fctx["inlined"]:
                continue
            used = False
            todo = [x for x in fn.body]
            while todo:
                x = todo.pop()
                if x is node:
                    continue
                if isinstance(x, ast.Name) and x.id == name:
                    used = True
                    break
                todo.extend(ast.iter_child_nodes(x))
            if not used:
                for blk in [fn.body] + [getattr(x, f) for x in ast.walk(fn) for f in ("body", "orelse", "finalbody")
                                         if isinstance(getattr(x, f, None), list)]:
                    if node in blk:
                        blk.remove(node)
                        if not blk:
                            blk.append(ast.copy_location(ast.Pass(), node))
        self._local_defs, self._nested_quals = {}, set()
        return fctx["inlined"]

    def substitute_consts(self, mod, cls, fn, mconsts, cconsts):
        if not mconsts and not cconsts:
            return
        local = _locals_of(fn)
        norm = self

        class S(ast.NodeTransformer):
            depth = 0

            def again(self, e):
                # a new constant may be defined in terms of other new constants
                if self.depth >= 4:
                    return e
                self.depth += 1
                try:
                    return self.visit(e)
                finally:
                    self.depth -= 1

            def visit_Name(self, n):
                if isinstance(n.ctx, ast.Load) and n.id in mconsts and n.id not in local:
                    norm.const_subst.append((mod.name, n.id))
                    return ast.copy_location(_fold(self.again(copy.deepcopy(mconsts[n.id]))), n)
                return n

            def visit_Attribute(self, n):
                self.generic_visit(n)
                if isinstance(n.ctx, ast.Load) and n.attr in cconsts and isinstance(n.value, ast.Name) \
                        and (n.value.id in ("self", "cls") or (cls is not None and n.value.id == cls.name)):
                    norm.const_subst.append((mod.name, n.attr))
                    return ast.copy_location(_fold(self.again(copy.deepcopy(cconsts[n.attr]))), n)
                return n
        fn.body = [ast.fix_missing_locations(S().visit(s)) for s in fn.body]


def _call_resolver(repo):
    """-> function (call, FuncInfo) -> (callee qual, [parameter names that can be passed positionally]) or None; callees are
    resolved without type information: module functions, classes (their __init__), self.m / cls.m / Class.m."""
    def params_of(fnode, drop_first):
        a = fnode.args
        if a.vararg is not None:
            return None
        ps = [x.arg for x in a.posonlyargs + a.args]
        return ps[1:] if drop_first else ps

    def callee(call, fi):
        f = call.func
        mod, cls = fi.mod, fi.cls
        if isinstance(f, ast.Name):
            if f.id in _locals_of(fi.node):
                return None
            r = repo.resolve(mod, f.id)
            if r is None:
                return None
            if r.kind == "func":
                ps = params_of(r.node, False)
                return (f"{r.mod.name}.{r.name}", ps) if ps is not None else None
            if r.kind == "class":
                ci = repo.class_by_node.get(id(r.node))
                m = ci.find_method("__init__") if ci else None
                ps = params_of(m[1], True) if m else None
                return (f"{m[0].qual}.__init__", ps) if ps is not None else None
            return None
        if isinstance(f, ast.Attribute) and isinstance(f.value, ast.Name):
            a = fi.node.args
            first = (a.posonlyargs + a.args)[0].arg if (a.posonlyargs + a.args) else None
            kind_here = Normalizer._kind(fi.node)
            if cls is not None and first and f.value.id == first and kind_here in ("plain", "other", "class"):
                m = cls.find_method(f.attr)
                if m is None or f.attr in m[0].props:
                    return None
                ps = params_of(m[1], Normalizer._kind(m[1]) != "static")
                for sub in repo.subs.get(cls.key, []):
                    if f.attr in sub.methods and params_of(sub.methods[f.attr], Normalizer._kind(sub.methods[f.attr]) != "static") != ps:
                        return None
                return (f"{m[0].qual}.{f.attr}", ps) if ps is not None else None
            r = repo.resolve(mod, f.value.id) if f.value.id not in _locals_of(fi.node) else None
            if r is not None and r.kind == "class":
                ci = repo.class_by_node.get(id(r.node))
                m = ci.find_method(f.attr) if ci else None
                if m is None:
                    return None
                ps = params_of(m[1], Normalizer._kind(m[1]) == "class")
                return (f"{m[0].qual}.{f.attr}", ps) if ps is not None else None
        return None
    return callee


def _plain_calls(repo):
    seen = set()
    for fi in list(repo.funcs.values()):
        if id(fi.node) in seen:
            continue
        seen.add(id(fi.node))
        for c in ast.walk(fi.node):
            if isinstance(c, ast.Call) and not any(isinstance(a, ast.Starred) for a in c.args) and not any(k.arg is None for k in c.keywords):
                yield fi, c


def call_conventions(repo):
    """{callee qual: {parameter: "pos" | "kw"}}: how each parameter is passed at every resolved call site of the tree (a
    parameter passed both ways somewhere is left out).  Frozen into reference/inventory.json by tools/freeze_inventory.py."""
    callee = _call_resolver(repo)
    seen = {}
    for fi, c in _plain_calls(repo):
        r = callee(c, fi)
        if r is None:
            continue
        q, ps = r
        d = seen.setdefault(q, {})
        for i, _ in enumerate(c.args):
            if i < len(ps):
                d.setdefault(ps[i], set()).add("pos")
        for k in c.keywords:
            if k.arg in ps:
                d.setdefault(k.arg, set()).add("kw")
    return {q: {p: next(iter(v)) for p, v in sorted(d.items()) if len(v) == 1} for q, d in sorted(seen.items())}


def canon_calls(repo, nz):
    """K1: every resolved call passes each argument the way the confirmed tree passes it to that callee (positionally or by
    keyword; table `call_conventions` of the inventory): `f(a, y=b)` -> `f(a, b)` where the confirmed tree always passes y
    positionally, `g(a, b)` -> `g(a, y=b)` where it always names y.  Only a prefix of the keywords (in source order) / a suffix of
    the positional arguments moves, so the evaluation order of the argument expressions is unchanged."""
    conv = nz.inv.get("call_conventions", {})
    callee = _call_resolver(repo)
    n_moved = 0
    for fi, c in _plain_calls(repo):
        r = callee(c, fi)
        if r is None:
            continue
        q, ps = r
        cv = conv.get(q)
        if not cv:
            continue
        while c.keywords and len(c.args) < len(ps) and c.keywords[0].arg == ps[len(c.args)] and cv.get(c.keywords[0].arg) == "pos":
            c.args.append(c.keywords.pop(0).value)
            n_moved += 1
        while c.args and len(c.args) <= len(ps) and cv.get(ps[len(c.args) - 1]) == "kw":
            name = ps[len(c.args) - 1]
            c.keywords.insert(0, ast.keyword(arg=name, value=c.args.pop()))
            n_moved += 1
    nz.keyword_args_moved = n_moved


def finish(nz, node, cls, mod, do_alias=True, do_shape=True, qual=None):
    """spelling / propagation / shape feed each other (a guard clause turned into if/else exposes a flag hand-over, a
    propagated record exposes a field access ...): repeated until a round changes nothing"""
    for round_ in range(4):
        changed = 0
        if do_alias:
            changed += spelling(node, cls, mod)
            changed += sets_to_flags(node)
            changed += lists_to_accumulators(node, nz.inv["locals"].get(qual) if qual else None)
            k0 = split_live_ranges(node)
            k = propagate_aliases(node, mod, nz.inv["locals"].get(qual) if qual else None)
            nz.alias_subst += k0 + k
            if k or k0:
                changed += k + k0 + spelling(node, cls, mod)      # literals moved into place may enable U1/U3/U5
            kd = drop_dead_copies(node)
            k2 = propagate_single_use(node, nz.inv["locals"].get(qual) if qual else None) + kd
            nz.alias_subst += k2
            if k2:
                changed += k2 + spelling(node, cls, mod)      # a dict literal moved into `f(**{..})` becomes keywords (U15)
        nz.spelling_changes += changed
        sh = shape(node) if do_shape else 0
        nz.shape_changes += sh
        if not (changed or sh) or not do_alias:
            break


def specialise_new_defaults(repo, nz):
    """K2: a parameter that the confirmed tree does not have (the inventory lists the local names, parameters included, of every
    confirmed function), that has a simple default and that NO call in the repository supplies - by keyword, by position, through
    `*args` / `**kwargs` - has its default value in every execution the repository itself can produce: the parameter is removed
    and `param = <default>` becomes the first statement, so the constant folds through the body (`if flush:` with flush = True)
    like any other literal local.  (A caller outside the repository that passes the new argument gets new behaviour by
    definition; the properties speak about the behaviour the library had before the parameter existed.)"""
    sites = {}
    for mod in repo.mods.values():
        for n in ast.walk(mod.tree):
            if isinstance(n, ast.Call):
                nm = n.func.attr if isinstance(n.func, ast.Attribute) else (n.func.id if isinstance(n.func, ast.Name) else None)
                if nm:
                    sites.setdefault(nm, []).append(n)
    done, seen = [], set()
    for fi in list(repo.funcs.values()):
        known = nz.inv["locals"].get(fi.qual)
        if known is None or id(fi.node) in seen:
            continue
        seen.add(id(fi.node))
        a = fi.node.args
        pos = a.posonlyargs + a.args
        n_nodef = len(pos) - len(a.defaults)
        cand = []
        for i, p_ in enumerate(pos):
            if i >= n_nodef and p_.arg not in known:
                cand.append(("pos", i, p_, a.defaults[i - n_nodef]))
        for p_, d_ in zip(a.kwonlyargs, a.kw_defaults):
            if d_ is not None and p_.arg not in known:
                cand.append(("kw", None, p_, d_))
        if not cand:
            continue
        names = {fi.name}
        if fi.name == "__init__" and fi.cls is not None:
            names |= {fi.cls.name, "__init__"}
            for c_ in repo.classes:
                try:
                    if fi.cls in c_.mro():
                        names.add(c_.name)
                except Exception:
                    pass
        calls = [c for nm in names for c in sites.get(nm, [])]
        if fi.name == "__init__" and fi.cls is not None:
            # `X.__init__(self, ..)` counts only when X is this class, one of its subclasses, or super()
            subs_ = []
            for c_ in repo.classes:
                try:
                    if c_ is not fi.cls and fi.cls in c_.mro():
                        subs_.append(c_)
                except Exception:
                    pass
            super_ok = {id(n_) for c_ in subs_ for n_ in ast.walk(c_.node) if isinstance(n_, ast.Call)}
            calls = [c for c in calls if not (isinstance(c.func, ast.Attribute) and c.func.attr == "__init__") or
                     ast.unparse(c.func.value).split(".")[-1] in (names - {"__init__"}) or
                     (ast.unparse(c.func.value).startswith("super(") and id(c) in super_ok)]
        is_method = fi.cls is not None and pos and pos[0].arg in ("self", "cls")
        for kind, i, p_, d_ in reversed(cand):
            simple = isinstance(d_, ast.Constant) or (isinstance(d_, (ast.Name, ast.Attribute)) and _chain_text(d_) is not None) or \
                (isinstance(d_, ast.UnaryOp) and isinstance(d_.operand, ast.Constant))
            if not simple:
                continue
            supplied = False
            for c in calls:
                if any(k.arg == p_.arg or k.arg is None for k in c.keywords) or any(isinstance(x, ast.Starred) for x in c.args):
                    supplied = True
                elif kind == "pos" and len(c.args) > (i - 1 if is_method else i):
                    supplied = True
                if supplied:
                    break
            # a store to the parameter's name through `global` / closures does not occur for parameters; a nested function that
            # reads it sees the same value
            if supplied:
                continue
            if kind == "pos":
                if pos.index(p_) != len(pos) - 1:
                    continue          # only a trailing parameter is removed (positions of the others stay what they are)
                if p_ in a.args:
                    a.args.remove(p_)
                else:
                    a.posonlyargs.remove(p_)
                a.defaults.pop()
                pos = a.posonlyargs + a.args
            else:
                k_ = a.kwonlyargs.index(p_)
                a.kwonlyargs.pop(k_)
                a.kw_defaults.pop(k_)
            at = 1 if fi.node.body and isinstance(fi.node.body[0], ast.Expr) and isinstance(fi.node.body[0].value, ast.Constant) \
                and isinstance(fi.node.body[0].value.value, str) else 0
            asg = ast.Assign(targets=[ast.Name(id=p_.arg, ctx=ast.Store())], value=copy.deepcopy(d_))
            ast.copy_location(asg, fi.node.body[at] if len(fi.node.body) > at else fi.node)
            ast.fix_missing_locations(asg)
            fi.node.body.insert(at, asg)
            done.append((fi.qual, p_.arg, ast.unparse(d_)))
    nz.new_defaults = done


def apply(repo):
    """Normalise every function of the loaded repository in place.  Returns the Normalizer (for evidence)."""
    inv = load_inventory()
    nz = Normalizer(repo, inv)
    # new helpers first get their own bodies normalised lazily through the recursion (stack-bounded);
    # iterate to a fixpoint over a bounded number of rounds so that helpers calling helpers are expanded.
    mconst_cache = {}
    nz.spelling_changes = 0
    _REPO[0] = repo
    from . import records as _records
    _records.RECORDS = _records.Records(repo, inv)
    nz.records = sorted(k for k, v in _records.RECORDS.names.items() if v is not None)
    # D0: match statements and assignment expressions become if-chains and plain assignments before anything else
    from .desugar import Desugar, desugar
    dz = Desugar()
    seen_d = set()
    for fi in list(repo.funcs.values()):
        if id(fi.node) not in seen_d:
            seen_d.add(id(fi.node))
            desugar(fi.node, dz)
    nz.desugar = dz.changes
    specialise_new_defaults(repo, nz)
    if os.environ.get("BSA_FREEZE_CONVENTIONS") == "1":
        nz.conventions = call_conventions(repo)
    else:
        canon_calls(repo, nz)
    if os.environ.get("BSA_ALIAS", "1") != "0":
        seen0 = set()
        for fi in list(repo.funcs.values()):
            if id(fi.node) not in seen0:
                seen0.add(id(fi.node))
                nz.spelling_changes += spelling(fi.node, fi.cls, fi.mod)     # comprehensions become loops before helpers are inlined into them
    for fi in list(repo.funcs.values()):
        mod, cls = fi.mod, fi.cls
        try:
            nz.normalize_function(mod, cls, fi.node, fi.qual)
        except RecursionError:
            nz.bailed.append((fi.qual, "?", "recursion"))
        nz.substitute_consts_of(fi)
    # a new helper whose every use was inlined is no longer part of the analysed program: who-may-call/write rules
    # must attribute its statements to the functions they were inlined into, not to a second function
    inlined = {h for _, h, _ in nz.log}
    nz.dropped = []
    for hq in sorted(inlined):
        fi = repo.funcs.get(hq)
        if fi is None:
            continue
        name = fi.name
        still = False
        for other in repo.funcs.values():
            if other is fi:
                continue
            for n in ast.walk(other.node):
                if (isinstance(n, ast.Attribute) and n.attr == name) or (isinstance(n, ast.Name) and n.id == name):
                    still = True
                    break
            if still:
                break
        if still:
            continue
        repo.funcs.pop(hq, None)
        if fi.cls is not None:
            fi.cls.methods.pop(name, None)
            try:
                fi.cls.node.body.remove(fi.node)
            except ValueError:
                pass
        else:
            fi.mod.funcs.pop(name, None)
            try:
                fi.mod.tree.body.remove(fi.node)
            except ValueError:
                pass
        nz.dropped.append(hq)
    nz.alias_subst = 0
    nz.shape_changes = 0
    do_alias = os.environ.get("BSA_ALIAS", "1") != "0"
    do_shape = os.environ.get("BSA_SHAPE", "1") != "0"
    seen = set()
    for fi in repo.funcs.values():
        if id(fi.node) in seen:
            continue
        seen.add(id(fi.node))
        finish(nz, fi.node, fi.cls, fi.mod, do_alias, do_shape, qual=fi.qual)
    return nz


# =====================================================================================================
# Shape canonicalisation (S-passes): one control-flow shape for equivalent spellings.
#   S0  `x = a if c else b` / `return a if c else b`     -> if c: ... else: ...
#   S1  guard clause: `if c: <...; return/raise/continue/break>` followed by a tail
#                                                        -> if c: ... else: <tail>
#   S3  in tail position of the function (resp. of a loop body) a branch that is only a bare
#       `return` (resp. `continue`) is an empty branch
#   S2  a negative test (`not x`, `is not`, `!=`, `not in`) with both branches present
#                                                        -> positive test, branches swapped
#   D1  `d.update({k: v})` as a statement                -> d[k] = v
# All of them preserve behaviour (evaluation order of the tests and statements is unchanged).
# =====================================================================================================
_TERM = (ast.Return, ast.Raise, ast.Continue, ast.Break)


def _terminates(stmts):
    if not stmts:
        return False
    s = stmts[-1]
    if isinstance(s, _TERM):
        return True
    if isinstance(s, ast.If):
        return bool(s.orelse) and _terminates(s.body) and _terminates(s.orelse)
    if isinstance(s, ast.With):
        return _terminates(s.body)
    return False


def negate(t):
    if isinstance(t, ast.UnaryOp) and isinstance(t.op, ast.Not):
        return t.operand
    if isinstance(t, ast.Compare) and len(t.ops) == 1:
        flip = {ast.Is: ast.IsNot, ast.IsNot: ast.Is, ast.Eq: ast.NotEq, ast.NotEq: ast.Eq, ast.In: ast.NotIn, ast.NotIn: ast.In}
        k = flip.get(type(t.ops[0]))
        if k is not None:
            return ast.copy_location(ast.Compare(left=t.left, ops=[k()], comparators=t.comparators), t)
    return ast.copy_location(ast.UnaryOp(op=ast.Not(), operand=t), t)


def _is_negative(t):
    if isinstance(t, ast.UnaryOp) and isinstance(t.op, ast.Not):
        return True
    return isinstance(t, ast.Compare) and len(t.ops) == 1 and isinstance(t.ops[0], (ast.IsNot, ast.NotEq, ast.NotIn))


def _bare(s, kinds):
    if isinstance(s, ast.Return) and ast.Return in kinds:
        return s.value is None or (isinstance(s.value, ast.Constant) and s.value.value is None)
    if isinstance(s, ast.Continue) and ast.Continue in kinds:
        return True
    return isinstance(s, ast.Pass)


class Shaper:
    def __init__(self):
        self.changes = 0

    def block(self, stmts, tail=False, loop_tail=False):
        stmts = list(stmts)
        out = []
        i = 0
        while i < len(stmts):
            s = stmts[i]
            rest = stmts[i + 1:]
            last = not rest
            # S0 ternaries
            exp = self.expand_ternary(s)
            if exp is not None:
                stmts[i] = exp
                self.changes += 1
                continue
            # D1 update -> subscript
            d1 = self.update_to_subscript(s)
            if d1 is not None:
                stmts[i] = d1
                self.changes += 1
                continue
            if isinstance(s, ast.If):
                # S1: absorb the tail when exactly one side terminates (or the if has no else and its body terminates)
                if rest and _terminates(s.body) and not (s.orelse and _terminates(s.orelse)):
                    s.orelse = list(s.orelse) + rest
                    stmts = stmts[:i + 1]
                    rest, last = [], True
                    self.changes += 1
                elif rest and s.orelse and _terminates(s.orelse) and not _terminates(s.body):
                    s.body = list(s.body) + rest
                    stmts = stmts[:i + 1]
                    rest, last = [], True
                    self.changes += 1
                s.body = self.block(s.body, tail and last, loop_tail and last)
                s.orelse = self.block(s.orelse, tail and last, loop_tail and last)
                # S3
                kinds = set()
                if tail and last:
                    kinds.add(ast.Return)
                if loop_tail and last:
                    kinds.add(ast.Continue)
                if kinds:
                    if s.body and all(_bare(x, kinds) for x in s.body) and s.orelse:
                        s.body = []
                        self.changes += 1
                    if s.orelse and all(_bare(x, kinds) for x in s.orelse):
                        s.orelse = []
                        self.changes += 1
                if not s.body and s.orelse:
                    s.test, s.body, s.orelse = negate(s.test), s.orelse, []
                elif not s.body:
                    s.body = [ast.copy_location(ast.Pass(), s)]
                # S2
                if s.orelse and _is_negative(s.test):
                    s.test, s.body, s.orelse = negate(s.test), s.orelse, s.body
                    self.changes += 1
                out.append(s)
            elif isinstance(s, (ast.For, ast.While)):
                s.body = self.block(s.body, False, True)
                s.orelse = self.block(s.orelse, False, False)
                out.append(s)
            elif isinstance(s, ast.With):
                s.body = self.block(s.body, tail and last, loop_tail and last)
                out.append(s)
            elif isinstance(s, ast.Try):
                s.body = self.block(s.body, False, False)
                for h in s.handlers:
                    h.body = self.block(h.body, tail and last and not s.finalbody and False, False)
                s.orelse = self.block(s.orelse, False, False)
                s.finalbody = self.block(s.finalbody, False, False)
                out.append(s)
            elif isinstance(s, (ast.FunctionDef, ast.AsyncFunctionDef, ast.ClassDef)):
                out.append(s)
            else:
                out.append(s)
            i += 1
        # a trailing bare return/continue in tail position is nothing
        if len(out) > 1 and ((tail and _bare(out[-1], {ast.Return}) and not isinstance(out[-1], ast.Pass))
                             or (loop_tail and isinstance(out[-1], ast.Continue))):
            out = out[:-1]
            self.changes += 1
        return out

    @staticmethod
    def expand_ternary(s):
        if isinstance(s, ast.Return) and isinstance(s.value, ast.IfExp):
            e = s.value
            mk = lambda v: ast.copy_location(ast.Return(value=v), s)
            return ast.copy_location(ast.If(test=e.test, body=[mk(e.body)], orelse=[mk(e.orelse)]), s)
        if isinstance(s, ast.Assign) and isinstance(s.value, ast.IfExp) and len(s.targets) == 1 \
                and isinstance(s.targets[0], ast.Name):
            e = s.value
            mk = lambda v: ast.copy_location(ast.Assign(targets=[copy.deepcopy(s.targets[0])], value=v, lineno=s.lineno), s)
            return ast.copy_location(ast.If(test=e.test, body=[mk(e.body)], orelse=[mk(e.orelse)]), s)
        return None

    @staticmethod
    def update_to_subscript(s):
        if isinstance(s, ast.Expr) and isinstance(s.value, ast.Call) and isinstance(s.value.func, ast.Attribute) \
                and s.value.func.attr == "update" and len(s.value.args) == 1 and not s.value.keywords \
                and isinstance(s.value.args[0], ast.Dict) and len(s.value.args[0].keys) == 1 \
                and s.value.args[0].keys[0] is not None:
            d = s.value.args[0]
            tgt = ast.copy_location(ast.Subscript(value=s.value.func.value, slice=d.keys[0], ctx=ast.Store()), s.value)
            return ast.fix_missing_locations(ast.copy_location(ast.Assign(targets=[tgt], value=d.values[0], lineno=s.lineno), s))
        return None


def shape(fn):
    sh = Shaper()
    fn.body = sh.block(fn.body, tail=True, loop_tail=False)
    if not fn.body:
        fn.body = [ast.copy_location(ast.Pass(), fn)]
    return sh.changes


# =====================================================================================================
# P5 alias propagation: a local bound exactly once to a pure attribute chain (`lock = Cls.identifiers_lock`,
# `header = msg.header`) is replaced by that chain at its uses.  The binding statement stays (dead), so
# nothing about evaluation order changes for the rules; what changes is that a rule sees the object the
# code really touches instead of a local name.  Not applied when the chain's root or the chain itself is
# stored to anywhere in the function, when the local is a parameter / loop target / global, or when a use
# could precede the binding (binding not in a block that encloses every use and precedes it).
# =====================================================================================================
def _chain_text(e):
    if isinstance(e, ast.Name):
        return e.id
    if isinstance(e, ast.Attribute):
        b = _chain_text(e.value)
        return None if b is None else f"{b}.{e.attr}"
    return None


def _is_pure_isinstance(e):
    """isinstance(<name or attribute chain>, <class name(s)>): a pure test (no user code runs for the classes used here)"""
    return isinstance(e, ast.Call) and isinstance(e.func, ast.Name) and e.func.id == "isinstance" and len(e.args) == 2 \
        and not e.keywords and _chain_text(e.args[0]) is not None and (
            _chain_text(e.args[1]) is not None or (isinstance(e.args[1], ast.Tuple) and all(_chain_text(x) is not None for x in e.args[1].elts)))


def lists_to_accumulators(fn, known_locals=None):
    """U27: a NEW local list that only collects pieces (`parts = [a]`, `parts.append(e)`, `parts.extend([e, f])`, `parts += [e]`) and
    is consumed exactly once by `b"".join(parts)` / `"".join(parts)` is the accumulated concatenation: `parts = a` (or the empty
    constant), `parts += e`, and the join is the name itself.  The pieces are evaluated in the same order; only the moment of
    concatenation differs, which nothing can observe (the pieces are bytes/str values)."""
    params = {a.arg for a in fn.args.posonlyargs + fn.args.args + fn.args.kwonlyargs}
    n_done = 0
    inits = {}
    for n in ast.walk(fn):
        if isinstance(n, ast.Assign) and len(n.targets) == 1 and isinstance(n.targets[0], ast.Name) and isinstance(n.value, ast.List) \
                and not any(isinstance(e, ast.Starred) for e in n.value.elts):
            inits.setdefault(n.targets[0].id, []).append(n)
    for name, defs in inits.items():
        if len(defs) != 1 or name in params or (known_locals is not None and name in known_locals):
            continue
        parents = {}
        for p_ in ast.walk(fn):
            for ch in ast.iter_child_nodes(p_):
                parents[id(ch)] = p_
        joins, adds, other = [], [], False
        for n in ast.walk(fn):
            if not (isinstance(n, ast.Name) and n.id == name) or n is defs[0].targets[0]:
                continue
            par = parents.get(id(n))
            gp = parents.get(id(par)) if par is not None else None
            ggp = parents.get(id(gp)) if gp is not None else None
            if isinstance(par, ast.Attribute) and par.attr in ("append", "extend") and isinstance(gp, ast.Call) and gp.func is par \
                    and len(gp.args) == 1 and not gp.keywords and isinstance(ggp, ast.Expr) \
                    and (par.attr == "append" or isinstance(gp.args[0], (ast.List, ast.Tuple))):
                adds.append((ggp, par.attr, gp.args[0]))
            elif isinstance(par, ast.AugAssign) and par.target is n and isinstance(par.op, ast.Add) and isinstance(par.value, (ast.List, ast.Tuple)):
                adds.append((par, "extend", par.value))
            elif isinstance(par, ast.Call) and isinstance(par.func, ast.Attribute) and par.func.attr == "join" and par.args == [n] \
                    and isinstance(par.func.value, ast.Constant) and par.func.value.value in (b"", ""):
                joins.append(par)
            else:
                other = True
        if other or len(joins) != 1:
            continue
        empty = joins[0].func.value.value
        d = defs[0]
        val = None
        for e in d.value.elts:
            val = e if val is None else ast.BinOp(left=val, op=ast.Add(), right=e)
        d.value = val if val is not None else ast.Constant(value=empty)
        for st, kind, arg in adds:
            pieces = [arg] if kind == "append" else list(arg.elts)
            v = None
            for e in pieces:
                v = e if v is None else ast.BinOp(left=v, op=ast.Add(), right=e)
            new = ast.AugAssign(target=ast.Name(id=name, ctx=ast.Store()), op=ast.Add(), value=v if v is not None else ast.Constant(value=empty))
            ast.copy_location(new, st)
            _replace_stmt(fn, st, [ast.fix_missing_locations(new)])
        j = joins[0]
        par = parents.get(id(j))
        for f_, v_ in ast.iter_fields(par):
            if v_ is j:
                setattr(par, f_, ast.copy_location(ast.Name(id=name, ctx=ast.Load()), j))
            elif isinstance(v_, list) and j in v_:
                v_[v_.index(j)] = ast.copy_location(ast.Name(id=name, ctx=ast.Load()), j)
        ast.fix_missing_locations(fn)
        n_done += 1
    return n_done


def _replace_stmt(root, old, new_list):
    for n in ast.walk(root):
        for f in ("body", "orelse", "finalbody"):
            b = getattr(n, f, None)
            if isinstance(b, list) and old in b:
                i = b.index(old)
                b[i:i + 1] = new_list
                return True
        if isinstance(n, ast.Try):
            for h in n.handlers:
                if old in h.body:
                    i = h.body.index(old)
                    h.body[i:i + 1] = new_list
                    return True
    return False


def sets_to_flags(fn):
    """U23: a local set that only ever receives constant elements (`s.add(K)`) and is only asked `K in s` / `K not in s` is a bundle of
    boolean flags, one per element asked for: `s = set()` -> `s__0 = False; ..`, `s.add(K)` -> `s__i = True`, `K in s` -> `s__i`."""
    n_done = 0
    params = {a.arg for a in fn.args.posonlyargs + fn.args.args + fn.args.kwonlyargs}
    inits = {}
    for n in ast.walk(fn):
        if isinstance(n, ast.Assign) and len(n.targets) == 1 and isinstance(n.targets[0], ast.Name) and isinstance(n.value, ast.Call) \
                and isinstance(n.value.func, ast.Name) and n.value.func.id == "set" and not n.value.args and not n.value.keywords:
            inits.setdefault(n.targets[0].id, []).append(n)
    for name, defs in inits.items():
        if len(defs) != 1 or name in params:
            continue
        adds, tests, other = [], [], False
        parents = {}
        for p_ in ast.walk(fn):
            for c_ in ast.iter_child_nodes(p_):
                parents[id(c_)] = p_
        for n in ast.walk(fn):
            if isinstance(n, ast.Name) and n.id == name:
                par = parents.get(id(n))
                if par is defs[0]:
                    continue
                gp = parents.get(id(par))
                if isinstance(par, ast.Attribute) and par.attr == "add" and isinstance(gp, ast.Call) and gp.func is par and len(gp.args) == 1 \
                        and not gp.keywords and isinstance(parents.get(id(gp)), ast.Expr) and _simple_val(gp.args[0]):
                    adds.append((parents[id(gp)], gp.args[0]))
                elif isinstance(par, ast.Compare) and len(par.ops) == 1 and isinstance(par.ops[0], (ast.In, ast.NotIn)) \
                        and par.comparators[0] is n and _simple_val(par.left):
                    tests.append(par)
                else:
                    other = True
        if other or not tests:
            continue
        keys = []
        for t in tests:
            k = ast.dump(t.left)
            if k not in keys:
                keys.append(k)
        flag = {k: f"{name}__has{i}" for i, k in enumerate(keys)}

        class T(ast.NodeTransformer):
            def visit_Compare(self_, n):
                self_.generic_visit(n)
                if n in tests or any(n is t for t in tests):
                    ref = ast.Name(id=flag[ast.dump(n.left)], ctx=ast.Load())
                    out = ref if isinstance(n.ops[0], ast.In) else ast.UnaryOp(op=ast.Not(), operand=ref)
                    return ast.copy_location(out, n)
                return n

            def visit_Expr(self_, n):
                for st_, k_ in adds:
                    if n is st_:
                        d = ast.dump(k_)
                        if d in flag:
                            return ast.copy_location(ast.Assign(targets=[ast.Name(id=flag[d], ctx=ast.Store())], value=ast.Constant(value=True),
                                                                lineno=n.lineno), n)
                        return ast.copy_location(ast.Pass(), n)
                return self_.generic_visit(n)

            def visit_Assign(self_, n):
                if n is defs[0]:
                    return [ast.copy_location(ast.Assign(targets=[ast.Name(id=f_, ctx=ast.Store())], value=ast.Constant(value=False),
                                                         lineno=n.lineno), n) for f_ in flag.values()]
                return self_.generic_visit(n)
        T().visit(fn)
        ast.fix_missing_locations(fn)
        n_done += 1
    return n_done


def drop_dead_copies(fn):
    """P8: `t = <name / constant / attribute chain / literal>` where t is never read is dropped (left behind by the passes above)"""
    loads = set()
    for n in ast.walk(fn):
        if isinstance(n, ast.Name) and isinstance(n.ctx, (ast.Load, ast.Del)):
            loads.add(n.id)
        elif isinstance(n, (ast.Global, ast.Nonlocal)):
            loads |= set(n.names)
    params = {a.arg for a in fn.args.posonlyargs + fn.args.args + fn.args.kwonlyargs}
    n_drop = 0

    def pure_value(v):
        if isinstance(v, (ast.Name, ast.Constant)) or _is_simple(v):
            return True
        if isinstance(v, (ast.Tuple, ast.List)):
            return all(pure_value(e) for e in v.elts)
        if isinstance(v, ast.Dict):
            return all(k is not None and pure_value(k) for k in v.keys) and all(pure_value(x) for x in v.values)
        from . import records as _rec
        if isinstance(v, ast.Call) and _rec.RECORDS is not None and _rec.RECORDS.is_value(v, pure_value):
            return True                          # a NEW record construction has no effect
        return False

    def block(stmts):
        nonlocal n_drop
        out = []
        for st in stmts:
            if isinstance(st, ast.Assign) and len(st.targets) == 1 and isinstance(st.targets[0], ast.Name) and st.targets[0].id not in loads \
                    and st.targets[0].id not in params and pure_value(st.value):
                n_drop += 1
                continue
            for fld in ("body", "orelse", "finalbody"):
                b = getattr(st, fld, None)
                if isinstance(b, list) and b and isinstance(b[0], ast.stmt) and not isinstance(st, (ast.FunctionDef, ast.AsyncFunctionDef, ast.ClassDef)):
                    nb = block(b)
                    setattr(st, fld, nb if nb or fld != "body" else [ast.copy_location(ast.Pass(), st)])
            if isinstance(st, ast.Try):
                for h in st.handlers:
                    h.body = block(h.body) or [ast.copy_location(ast.Pass(), h)]
            out.append(st)
        return out
    # a name read inside a nested function counts (ast.walk above covers nested scopes)
    fn.body = block(fn.body) or [ast.Pass()]
    ast.fix_missing_locations(fn)
    return n_drop


def split_live_ranges(fn):
    """P4: a local that is plainly re-assigned at the top level of one block (`x = a; use(x); x = b; use(x)`, typically an unrolled
    loop variable or a re-used temporary) gets a fresh name per assignment, except for the last one: every definition then has
    one value and the single-assignment passes apply to it."""
    counter = [0]
    n_split = 0
    params = {a.arg for a in fn.args.posonlyargs + fn.args.args + fn.args.kwonlyargs}

    def stores_nested(stmt, name, top=True):
        for n in ast.walk(stmt):
            if isinstance(n, ast.Name) and n.id == name and isinstance(n.ctx, (ast.Store, ast.Del)):
                if top and isinstance(stmt, ast.Assign) and len(stmt.targets) == 1 and n is stmt.targets[0]:
                    continue
                return True
            if isinstance(n, (ast.Global, ast.Nonlocal)) and name in n.names:
                return True
        return False

    def block(stmts):
        nonlocal n_split
        defs = {}
        for i, st in enumerate(stmts):
            if isinstance(st, ast.Assign) and len(st.targets) == 1 and isinstance(st.targets[0], ast.Name):
                defs.setdefault(st.targets[0].id, []).append(i)
        for name, idx in defs.items():
            if len(idx) < 2 or name in params:
                continue
            if any(stores_nested(st, name) for st in stmts):
                continue
            if any(isinstance(n, (ast.Lambda, ast.FunctionDef, ast.AsyncFunctionDef)) and any(
                    isinstance(x, ast.Name) and x.id == name for x in ast.walk(n)) for st in stmts for n in ast.walk(st)):
                continue
            for m in range(len(idx) - 1):
                counter[0] += 1
                new = f"{name}__s{counter[0]}"
                ren = _RenameAll(name, new)
                d0, d1 = idx[m], idx[m + 1]
                stmts[d0].targets[0] = ast.copy_location(ast.Name(id=new, ctx=ast.Store()), stmts[d0].targets[0])
                for j in range(d0 + 1, d1):
                    stmts[j] = ren.visit(stmts[j])
                stmts[d1].value = ren.visit(stmts[d1].value)
                n_split += 1
        for st in stmts:
            for fld in ("body", "orelse", "finalbody"):
                b = getattr(st, fld, None)
                if isinstance(b, list) and b and isinstance(b[0], ast.stmt) and not isinstance(st, (ast.FunctionDef, ast.AsyncFunctionDef, ast.ClassDef)):
                    block(b)
            if isinstance(st, ast.Try):
                for h in st.handlers:
                    block(h.body)
    block(fn.body)
    return n_split


class _RenameAll(ast.NodeTransformer):
    def __init__(self, old, new):
        self.old, self.new = old, new

    def visit_Name(self, n):
        if n.id == self.old:
            return ast.copy_location(ast.Name(id=self.new, ctx=n.ctx), n)
        return n


def _record_value_of_stable_names(e, stores, params, attr_stores):
    from . import records
    R = records.RECORDS
    if R is None or R.info_of_call(e) is None or R.info_of_call(e).bind(e) is None:
        return False
    for a in list(e.args) + [k.value for k in e.keywords]:
        if isinstance(a, ast.Constant):
            continue
        if isinstance(a, ast.Call):
            if not _record_value_of_stable_names(a, stores, params, attr_stores):
                return False
            continue
        if _has(a, (ast.Call, ast.Lambda, ast.NamedExpr, ast.Await, ast.Yield, ast.YieldFrom, ast.Subscript)):
            return False
        for n in ast.walk(a):
            if isinstance(n, ast.Name):
                k = stores.get(n.id, 0)
                if not (k == 0 or (k == 1 and n.id not in params)):
                    return False
            if isinstance(n, ast.Attribute):
                t = _chain_text(n)
                if t is None or any(t == x or x.startswith(t + ".") or t.startswith(x + ".") for x in attr_stores):
                    return False
    return True


# ---------------------------------------------------------------------------------------------------------------------------
# When may `x = a.b.c` stand for `a.b.c` at a later read of x?  The function not storing a.b.c itself is not enough: a call in
# between may (SessionHandler.id is advanced by _verify_session_id).  Either every attribute of the chain is STABLE in the whole
# repository - written only by constructors on their own instance (or in a class body), never anywhere else, not a computed
# property, not on a class that writes its instance dictionary dynamically - or nothing with an effect is evaluated between the
# binding and the reads.
# ---------------------------------------------------------------------------------------------------------------------------
def attr_stability(repo):
    st = getattr(repo, "_attr_stability", None)
    if st is not None:
        return st
    init_stores, all_stores, init_names, other_names, props, dyn_classes = set(), [], set(), set(), {}, []
    for m in repo.mods.values():
        for node in ast.walk(m.tree):
            if isinstance(node, ast.ClassDef):
                dyn = False
                cnames = set()
                for s_ in node.body:
                    if isinstance(s_, ast.Assign):
                        cnames |= {t.id for t in s_.targets if isinstance(t, ast.Name)}
                    elif isinstance(s_, ast.AnnAssign) and isinstance(s_.target, ast.Name):
                        cnames.add(s_.target.id)
                    elif isinstance(s_, (ast.FunctionDef, ast.AsyncFunctionDef)):
                        selfn = s_.args.args[0].arg if s_.args.args else None
                        is_prop = any(isinstance(d, ast.Name) and d.id == "property" for d in s_.decorator_list)
                        if not s_.decorator_list or all(isinstance(d, ast.Name) and d.id in ("staticmethod", "classmethod")
                                                        for d in s_.decorator_list):
                            cnames.add(s_.name)          # a method: `o.m` is the same bound method unless somebody assigns `o.m`
                        if is_prop:
                            e_ = single_expr_of(s_.body)
                            tgt = e_.attr if isinstance(e_, ast.Attribute) and isinstance(e_.value, ast.Name) and e_.value.id == selfn else None
                            props.setdefault(s_.name, set()).add(tgt)
                        for x in ast.walk(s_):
                            if isinstance(x, ast.Attribute) and x.attr == "__dict__":
                                dyn = True
                            if isinstance(x, ast.Call) and isinstance(x.func, ast.Name) and x.func.id in ("setattr", "delattr") \
                                    and not (len(x.args) >= 2 and isinstance(x.args[1], ast.Constant)):
                                dyn = True
                            if s_.name in ("__init__", "__new__") and isinstance(x, ast.Attribute) and isinstance(x.ctx, ast.Store) \
                                    and isinstance(x.value, ast.Name) and x.value.id == selfn:
                                init_stores.add(id(x))
                                cnames.add(x.attr)
                init_names |= cnames
                if dyn:
                    dyn_classes.append(cnames)
            if isinstance(node, ast.Attribute) and isinstance(node.ctx, (ast.Store, ast.Del)):
                all_stores.append(node)
            if isinstance(node, ast.Call) and isinstance(node.func, ast.Name) and node.func.id in ("setattr", "delattr") \
                    and len(node.args) >= 2 and isinstance(node.args[1], ast.Constant) and isinstance(node.args[1].value, str):
                other_names.add(node.args[1].value)
    for x in all_stores:
        if id(x) not in init_stores:
            other_names.add(x.attr)
    unstable_dyn = set()
    for c in dyn_classes:
        unstable_dyn |= c
    stable = set()
    for a in init_names:
        if a in other_names or a in unstable_dyn or a in props:
            continue
        stable.add(a)
    for a, tg in props.items():       # a property that only returns one stable attribute of its instance
        if a not in other_names and a not in unstable_dyn and len(tg) == 1 and None not in tg and next(iter(tg)) in stable:
            stable.add(a)
    stable.add("__dict__")          # the instance dictionary is one object for the life of the instance (only its content changes)
    repo._attr_stability = stable
    return stable


def _stmt_has_effect(st):
    from .desugar import is_pure
    for n in ast.walk(st):
        if isinstance(n, (ast.Attribute, ast.Subscript)) and isinstance(n.ctx, (ast.Store, ast.Del)):
            return True
        if isinstance(n, (ast.With, ast.AsyncWith, ast.Global, ast.Nonlocal, ast.Import, ast.ImportFrom)):
            return True
        if isinstance(n, ast.expr) and not isinstance(n, (ast.Name, ast.Constant)) and not is_pure(n):
            return True
    return False


def no_effect_before_reads(name, later, attrs, eff, local_callables=()):
    """every read of `name` in `later` happens before anything that may re-bind one of the attribute names `attrs` is evaluated
    after the binding (all paths, loops taken twice): a flow-sensitive walk carrying one bit - such an effect has happened since
    the binding.  What an expression may re-bind, transitively through the functions it calls: bsa/effects.py"""
    from .desugar import Desugar

    def is_pure(e):
        return not eff.may_write(e, attrs, local_callables)

    def _stmt_has_effect(st):
        return eff.may_write(st, attrs, local_callables)

    class Unsafe(Exception):
        pass

    def reads(node):
        return [n for n in ast.walk(node) if isinstance(n, ast.Name) and n.id == name and isinstance(n.ctx, ast.Load)]

    def expr(e, dirty):
        if e is None:
            return dirty
        us = reads(e)
        if us:
            if dirty:
                raise Unsafe()
            for u in us:
                bef = Desugar._before(e, u)
                if bef is None:
                    if not is_pure(e):
                        raise Unsafe()
                elif not all(is_pure(b_) for b_ in bef):
                    raise Unsafe()
        return dirty or not is_pure(e)

    def store(t, dirty):
        if isinstance(t, (ast.Tuple, ast.List)):
            for x in t.elts:
                dirty = store(x, dirty)
            return dirty
        if isinstance(t, ast.Starred):
            return store(t.value, dirty)
        if isinstance(t, ast.Name):
            return dirty
        if reads(t) and dirty:
            raise Unsafe()
        return dirty or eff.may_write(t, attrs, local_callables)       # a store to one of the attributes, or a call in the target

    def seq(stmts, dirty):
        for st in stmts:
            dirty = one(st, dirty)
        return dirty

    def one(st, dirty):
        if isinstance(st, ast.If):
            d = expr(st.test, dirty)
            d1, d2 = seq(st.body, d), seq(st.orelse, d)
            return d1 or d2
        if isinstance(st, (ast.For, ast.AsyncFor)):
            d = expr(st.iter, dirty)
            d = store(st.target, d)
            d1 = seq(st.body, d)
            if d1 and not d:
                seq(st.body, True)            # a second iteration starts after the effects of the first
            return seq(st.orelse, d1 or d)
        if isinstance(st, ast.While):
            d = expr(st.test, dirty)
            d1 = seq(st.body, d)
            if d1 and not dirty:
                expr(st.test, True)
                seq(st.body, True)
            return seq(st.orelse, d1 or d)
        if isinstance(st, ast.Try):
            d_body = seq(st.body, dirty)
            d_any = dirty or any(_stmt_has_effect(x) for x in st.body)
            outs = [seq(st.orelse, d_body)]
            for h in st.handlers:
                outs.append(seq(h.body, d_any))
            d = any(outs)
            return seq(st.finalbody, d or d_any) if st.finalbody else d
        if isinstance(st, (ast.With, ast.AsyncWith)):
            d = dirty
            for it in st.items:
                d = expr(it.context_expr, d)
            return seq(st.body, d)
        if isinstance(st, ast.Assign):
            d = expr(st.value, dirty)
            for t in st.targets:
                d = store(t, d)
            return d
        if isinstance(st, ast.AnnAssign):
            d = expr(st.value, dirty)
            return store(st.target, d) if st.value is not None else d
        if isinstance(st, ast.AugAssign):
            if reads(st.target) and dirty:
                raise Unsafe()
            d = expr(st.value, dirty)
            return store(st.target, d)
        if isinstance(st, (ast.Return, ast.Expr)):
            return expr(st.value, dirty)
        if isinstance(st, ast.Raise):
            return expr(st.cause, expr(st.exc, dirty))
        if isinstance(st, ast.Assert):
            return expr(st.msg, expr(st.test, dirty))
        if isinstance(st, (ast.Pass, ast.Break, ast.Continue)):
            return dirty
        # anything else (nested definitions, delete, import, global ...): a read inside it is not followed
        if reads(st):
            raise Unsafe()
        return dirty or _stmt_has_effect(st)

    try:
        seq(later, False)
    except Unsafe:
        return False
    return True


class _StrictEffects:
    """for values that depend on the CONTENT of objects (`a == b`, `x[0]`, `a + b`): any call or store is a conflicting effect"""
    def closure(self, attrs):
        return set(attrs)

    def may_write(self, node, attrs, local_callables=()):
        return _stmt_has_effect(node)


def _dependence(value, mod, stable):
    """-> ("const" | "identity" | "content", attribute names): what a later evaluation of `value` depends on.  `identity`: only on
    which objects the listed attribute names are bound to (the chain roots are names, handled by the callers)."""
    attrs = set()
    content = False

    def chain(a):
        names = []
        x = a
        while isinstance(x, ast.Attribute):
            names.append(x.attr)
            x = x.value
        if not isinstance(x, ast.Name):
            go(x)
            attrs.update(names)
            return
        if mod is not None and x.id in mod.imports and mod.imports[x.id][1] is None:
            return                               # an attribute of an imported module (`selectors.EVENT_READ`)
        attrs.update(n for n in names if n not in stable)

    def go(e):
        nonlocal content
        if isinstance(e, (ast.Constant, ast.Name)):
            return
        if isinstance(e, ast.Attribute):
            chain(e)
            return
        if isinstance(e, (ast.Tuple, ast.List, ast.Set)):
            for x in e.elts:
                go(x)
            return
        if isinstance(e, ast.Dict):
            for x in list(e.keys) + list(e.values):
                if x is not None:
                    go(x)
                else:
                    content = True
            return
        if isinstance(e, ast.Starred):
            content = True
            return
        if isinstance(e, ast.BoolOp):
            for x in e.values:
                go(x)
            return
        if isinstance(e, ast.UnaryOp) and isinstance(e.op, ast.Not):
            go(e.operand)             # (the truth value of a container depends on its content; of None / a flag / an int it does not)
            return
        if isinstance(e, ast.IfExp):
            go(e.test), go(e.body), go(e.orelse)
            return
        if isinstance(e, ast.Compare):
            ops = [e.left] + list(e.comparators)
            if all(isinstance(o, (ast.Is, ast.IsNot)) for o in e.ops):
                for x in ops:
                    go(x)
                return
            immut = [x for x in ops if isinstance(x, ast.Constant) and isinstance(x.value, (int, str, bytes, bool, float, type(None)))]
            if len(immut) >= len(ops) - 1:
                for x in ops:
                    go(x)             # compared with an immutable constant: depends on the binding only
                return
            content = True
            return
        if isinstance(e, ast.Call):
            from . import records as _rec
            if isinstance(e.func, ast.Name) and e.func.id == "isinstance" and len(e.args) == 2 and not e.keywords:
                go(e.args[0])
                return
            if _rec.RECORDS is not None and _rec.RECORDS.info_of_call(e) is not None:
                for x in list(e.args) + [k.value for k in e.keywords]:
                    go(x)
                return
            content = True
            return
        if isinstance(e, ast.BinOp) and all(isinstance(x, ast.Constant) for x in (e.left, e.right)):
            return
        content = True
    go(value)
    if content:
        return "content", attrs
    if not attrs:
        return "const", attrs
    return "identity", attrs


def deferrable(name, value, later, local_callables=(), mod=None):
    """may the evaluation of `value` move from the binding of `name` to the reads of `name` in the statements `later`?"""
    repo = _REPO[0]
    if repo is None:
        return False
    from .effects import effects_of
    mode, attrs = _dependence(value, mod, attr_stability(repo))
    if mode == "const":
        return True
    if mode == "identity":
        eff = effects_of(repo)
        return no_effect_before_reads(name, later, eff.closure(attrs), eff, local_callables)
    return no_effect_before_reads(name, later, {"<content>"}, _StrictEffects(), local_callables)


_PURE_READERS = {"hex", "decode", "startswith", "endswith", "find", "index", "count", "split", "strip", "lower", "upper", "join",
                 "isdigit", "rstrip", "lstrip", "replace", "format", "encode", "rfind", "partition", "to_bytes", "bit_length", "copy"}


def _mutated_in_place(fn, name):
    """may the object bound to `name` change in place inside fn?  (conservative: any method call outside the pure readers of
    str/bytes, any item / slice store or delete, any augmented assignment)"""
    for n in ast.walk(fn):
        if isinstance(n, ast.Call) and isinstance(n.func, ast.Attribute) and isinstance(n.func.value, ast.Name) and n.func.value.id == name \
                and n.func.attr not in _PURE_READERS:
            return True
        if isinstance(n, ast.Subscript) and isinstance(n.ctx, (ast.Store, ast.Del)) and isinstance(n.value, ast.Name) and n.value.id == name:
            return True
        if isinstance(n, ast.AugAssign) and isinstance(n.target, ast.Name) and n.target.id == name:
            return True
    return False


def propagate_aliases(fn, mod=None, known_locals=None):
    _MOD[0] = mod
    unsound_ok = set()
    params = {a.arg for a in fn.args.posonlyargs + fn.args.args + fn.args.kwonlyargs}
    if fn.args.vararg:
        params.add(fn.args.vararg.arg)
    if fn.args.kwarg:
        params.add(fn.args.kwarg.arg)
    stores = {}
    attr_stores = set()
    for n in ast.walk(fn):
        if isinstance(n, ast.Name) and isinstance(n.ctx, (ast.Store, ast.Del)):
            stores[n.id] = stores.get(n.id, 0) + 1
        elif isinstance(n, ast.Attribute) and isinstance(n.ctx, (ast.Store, ast.Del)):
            t = _chain_text(n)
            if t:
                attr_stores.add(t)
        elif isinstance(n, (ast.Global, ast.Nonlocal)):
            for g in n.names:
                stores[g] = 99
        elif isinstance(n, ast.ExceptHandler) and n.name:
            stores[n.name] = stores.get(n.name, 0) + 1
    cands = {}
    deep = set()
    stable_attrs = attr_stability(_REPO[0]) if _REPO[0] is not None else set()

    def chains_of(e):
        out, skip = [], set()
        for n in ast.walk(e):
            if isinstance(n, ast.Attribute) and id(n) not in skip:
                out.append(n)
                x = n
                while isinstance(x, ast.Attribute):
                    skip.add(id(x))
                    x = x.value
        return out

    def chain_stable(a):
        x = a
        while isinstance(x, ast.Attribute):
            if x.attr not in stable_attrs:
                return False
            x = x.value
        if isinstance(x, ast.Name):
            return True
        return False

    def module_chain(a):
        x = a
        while isinstance(x, ast.Attribute):
            x = x.value
        if isinstance(x, ast.Name) and stores.get(x.id, 0) == 0 and x.id not in params and _MOD[0] is not None:
            return _MOD[0].imports.get(x.id, (None, "x"))[1] is None and x.id in _MOD[0].imports
        return False

    def sound(name, value, later):
        """the value still evaluates to the same thing at every read of `name`"""
        return deferrable(name, value, later, set(stores) | params, _MOD[0])

    def scan(stmts, depth_ok):
        for i, s in enumerate(stmts):
            if isinstance(s, ast.Assign) and len(s.targets) == 1 and isinstance(s.targets[0], ast.Name) \
                    and (isinstance(s.value, ast.Constant) and (type(s.value.value) in (int, bytes, str) or
                                                                 type(s.value.value) in (bool, type(None)) and
                                                                 (known_locals is None or s.targets[0].id not in known_locals))
                         or isinstance(s.value, ast.Tuple) and 1 <= len(s.value.elts) <= 8 and all(
                             isinstance(e, ast.Constant) or (isinstance(e, ast.Name) and stores.get(e.id, 0) == 0 and e.id not in params)
                             or (isinstance(e, ast.Tuple) and 1 <= len(e.elts) <= 4 and all(
                                 isinstance(z, ast.Constant) or (isinstance(z, ast.Name) and stores.get(z.id, 0) == 0 and z.id not in params)
                                 or (isinstance(z, ast.Attribute) and _chain_text(z) is not None and stores.get(_chain_text(z).split(".")[0], 0) == 0
                                     and not any(_chain_text(z) == a_ or a_.startswith(_chain_text(z) + ".") for a_ in attr_stores))
                                 for z in e.elts))
                             or (isinstance(e, ast.Attribute) and _chain_text(e) is not None
                                 and stores.get(_chain_text(e).split(".")[0], 0) == 0
                                 and not any(_chain_text(e) == a or a.startswith(_chain_text(e) + ".") or _chain_text(e).startswith(a + ".")
                                             for a in attr_stores))
                             for e in s.value.elts)) \
                    and stores.get(s.targets[0].id) == 1 and s.targets[0].id not in params:
                # a local bound once to a literal stands for the literal
                name = s.targets[0].id
                later = stmts[i + 1:]
                uses_later = sum(1 for t in later for n in ast.walk(t) if isinstance(n, ast.Name) and n.id == name and isinstance(n.ctx, ast.Load))
                uses_all = sum(1 for n in ast.walk(fn) if isinstance(n, ast.Name) and n.id == name and isinstance(n.ctx, ast.Load))
                if uses_all and uses_later == uses_all:
                    cands[name] = (s.value, later)
            elif isinstance(s, ast.Assign) and len(s.targets) == 1 and isinstance(s.targets[0], ast.Name) \
                    and (isinstance(s.value, (ast.Compare, ast.BoolOp, ast.UnaryOp)) or _is_pure_isinstance(s.value)) \
                    and stores.get(s.targets[0].id) == 1 and s.targets[0].id not in params \
                    and not _has(s.value, (ast.Lambda, ast.ListComp, ast.SetComp, ast.DictComp, ast.GeneratorExp,
                                           ast.NamedExpr, ast.Await, ast.Yield, ast.YieldFrom, ast.Subscript)) \
                    and all(_is_pure_isinstance(c_) for c_ in ast.walk(s.value) if isinstance(c_, ast.Call)):
                # P7: a boolean local over names/attribute chains that the function never stores
                name = s.targets[0].id
                free_ok = True
                for n in ast.walk(s.value):
                    if isinstance(n, ast.Name) and stores.get(n.id, 0) != 0 and n.id not in params:
                        free_ok = False
                    if isinstance(n, ast.Name) and n.id in params and stores.get(n.id, 0) != 0:
                        free_ok = False
                    if isinstance(n, ast.Attribute):
                        t = _chain_text(n)
                        if t is None or any(t == a or a.startswith(t + ".") or t.startswith(a + ".") for a in attr_stores):
                            free_ok = False
                later = stmts[i + 1:]
                uses_later = sum(1 for t in later for n in ast.walk(t) if isinstance(n, ast.Name) and n.id == name and isinstance(n.ctx, ast.Load))
                uses_all = sum(1 for n in ast.walk(fn) if isinstance(n, ast.Name) and n.id == name and isinstance(n.ctx, ast.Load))
                if free_ok and uses_all and uses_later == uses_all:
                    cands[name] = (s.value, later)
            elif isinstance(s, ast.Assign) and len(s.targets) == 1 and isinstance(s.targets[0], ast.Name) \
                    and isinstance(s.value, ast.Dict) and s.value.keys and len(s.value.keys) <= 8 \
                    and all(isinstance(k_, ast.Constant) for k_ in s.value.keys) and stores.get(s.targets[0].id) == 1 \
                    and s.targets[0].id not in params \
                    and not any(isinstance(n, ast.Subscript) and isinstance(n.ctx, (ast.Store, ast.Del)) and isinstance(n.value, ast.Name)
                                and n.value.id == s.targets[0].id for n in ast.walk(fn)) \
                    and all(isinstance(v_, ast.Constant) or (_chain_text(v_) is not None and stores.get(_chain_text(v_).split(".")[0], 0) == 0
                                                             and not any(_chain_text(v_) == a_ or a_.startswith(_chain_text(v_) + ".")
                                                                         or _chain_text(v_).startswith(a_ + ".") for a_ in attr_stores))
                            for v_ in s.value.values):
                # P5d: a local bound once to a dict literal of stable simple values that is only read (iterated, looked up)
                name = s.targets[0].id
                later = stmts[i + 1:]
                uses_later = sum(1 for t in later for n in ast.walk(t) if isinstance(n, ast.Name) and n.id == name and isinstance(n.ctx, ast.Load))
                uses_all = sum(1 for n in ast.walk(fn) if isinstance(n, ast.Name) and n.id == name and isinstance(n.ctx, ast.Load))
                mutated = any(isinstance(n, ast.Call) and isinstance(n.func, ast.Attribute) and isinstance(n.func.value, ast.Name)
                              and n.func.value.id == name and n.func.attr not in ("items", "keys", "values", "get") for n in ast.walk(fn))
                if uses_all and uses_later == uses_all and uses_all <= 2 and not mutated:
                    cands[name] = (s.value, later)
            elif isinstance(s, ast.Assign) and len(s.targets) == 1 and isinstance(s.targets[0], ast.Name) \
                    and isinstance(s.value, ast.Call) and stores.get(s.targets[0].id) == 1 and s.targets[0].id not in params \
                    and _record_value_of_stable_names(s.value, stores, params, attr_stores):
                # P5r: a local bound once to a record construction over names/attributes that do not change afterwards
                name = s.targets[0].id
                later = stmts[i + 1:]
                uses_later = sum(1 for t in later for n in ast.walk(t) if isinstance(n, ast.Name) and n.id == name and isinstance(n.ctx, ast.Load))
                uses_all = sum(1 for n in ast.walk(fn) if isinstance(n, ast.Name) and n.id == name and isinstance(n.ctx, ast.Load))
                if uses_all and uses_later == uses_all:
                    cands[name] = (s.value, later)
                    if all(stores.get(n.id, 0) == 0 for n in ast.walk(s.value) if isinstance(n, ast.Name)):
                        deep.add(name)        # nothing it mentions is ever rebound: also valid inside closures that run later
            elif isinstance(s, ast.Assign) and len(s.targets) == 1 and isinstance(s.targets[0], ast.Name) \
                    and isinstance(s.value, ast.Call) and isinstance(s.value.func, ast.Name) and s.value.func.id == "len" \
                    and len(s.value.args) == 1 and not s.value.keywords and isinstance(s.value.args[0], ast.Name) \
                    and stores.get(s.targets[0].id) == 1 and s.targets[0].id not in params \
                    and (known_locals is None or s.targets[0].id not in known_locals) \
                    and stores.get(s.value.args[0].id, 0) == 0 and s.value.args[0].id in params \
                    and "len" not in stores and "len" not in params \
                    and not _mutated_in_place(fn, s.value.args[0].id):
                # P5l: a NEW local that caches len(<parameter>) where the parameter is never rebound and never changed in place
                # (no method call on it other than pure readers, no item/slice store, no augmented assignment): the length is the
                # same at every read, so the local stands for `len(p)`
                name = s.targets[0].id
                later = stmts[i + 1:]
                uses_later = sum(1 for t in later for n in ast.walk(t) if isinstance(n, ast.Name) and n.id == name and isinstance(n.ctx, ast.Load))
                uses_all = sum(1 for n in ast.walk(fn) if isinstance(n, ast.Name) and n.id == name and isinstance(n.ctx, ast.Load))
                if uses_all and uses_later == uses_all:
                    cands[name] = (s.value, later)
                    unsound_ok.add(name)
            elif isinstance(s, ast.Assign) and len(s.targets) == 1 and isinstance(s.targets[0], ast.Name) \
                    and isinstance(s.value, ast.Name) and s.value.id != s.targets[0].id \
                    and stores.get(s.targets[0].id) == 1 and s.targets[0].id not in params \
                    and (stores.get(s.value.id, 0) == 1 and s.value.id not in params or stores.get(s.value.id, 0) == 0 and s.value.id in params):
                # P5c: `y = x` with x and y each bound once: y is another name for x
                name = s.targets[0].id
                later = stmts[i + 1:]
                uses_later = sum(1 for t in later for n in ast.walk(t) if isinstance(n, ast.Name) and n.id == name and isinstance(n.ctx, ast.Load))
                uses_all = sum(1 for n in ast.walk(fn) if isinstance(n, ast.Name) and n.id == name and isinstance(n.ctx, ast.Load))
                if uses_all and uses_later == uses_all:
                    cands[name] = (s.value, later)
            elif isinstance(s, ast.Assign) and len(s.targets) == 1 and isinstance(s.targets[0], ast.Name) \
                    and isinstance(s.value, ast.Attribute):
                name = s.targets[0].id
                chain = _chain_text(s.value)
                if chain and stores.get(name) == 1 and name not in params and depth_ok:
                    root = chain.split(".")[0]
                    parts = chain.split(".")
                    prefixes = {".".join(parts[:k]) for k in range(2, len(parts) + 1)}
                    root_ok = stores.get(root, 0) == 0
                    if not root_ok:
                        # every binding of the root is the target of a for-loop that encloses this statement: within one
                        # iteration the root is fixed
                        loops_ = [lp for lp in ast.walk(fn) if isinstance(lp, ast.For) and any(x is s for x in ast.walk(lp))]
                        tgt_stores = sum(1 for lp in loops_ for x in ast.walk(lp.target) if isinstance(x, ast.Name) and x.id == root)
                        root_ok = tgt_stores == stores.get(root, 0) and tgt_stores > 0
                    if root_ok and not (prefixes & attr_stores) and root != name:
                        # every use must be in this block after i (or nested inside later statements)
                        later = stmts[i + 1:]
                        uses_later = sum(1 for t in later for n in ast.walk(t) if isinstance(n, ast.Name) and n.id == name and isinstance(n.ctx, ast.Load))
                        uses_all = sum(1 for n in ast.walk(fn) if isinstance(n, ast.Name) and n.id == name and isinstance(n.ctx, ast.Load))
                        if uses_all and uses_later == uses_all:
                            cands[name] = (s.value, later)
            for fld in ("body", "orelse", "finalbody"):
                b = getattr(s, fld, None)
                if isinstance(b, list) and not isinstance(s, (ast.FunctionDef, ast.AsyncFunctionDef, ast.ClassDef)):
                    scan(b, depth_ok)
            if isinstance(s, ast.Try):
                for h in s.handlers:
                    scan(h.body, depth_ok)
    scan(fn.body, True)
    n_sub = 0
    for name, (value, later) in cands.items():
        if name not in unsound_ok and not sound(name, value, later):
            continue

        class R(ast.NodeTransformer):
            def visit_Name(self, n):
                nonlocal n_sub
                if n.id == name and isinstance(n.ctx, ast.Load):
                    n_sub += 1
                    return ast.copy_location(copy.deepcopy(value), n)
                return n

            def visit_Lambda(self, n):
                return n

            def visit_FunctionDef(self, n):
                if name in deep:
                    shadow = _locals_of(n)
                    if name not in shadow and not any(isinstance(x, ast.Name) and x.id in shadow for x in ast.walk(value)):
                        n.body = [self.visit(b) for b in n.body]
                return n
        for i, t in enumerate(later):
            later[i] = ast.fix_missing_locations(R().visit(t))
        # `later` is a slice copy: write the rewritten statements back into the enclosing block
    return n_sub


# =====================================================================================================
# Further spelling-level passes (all behaviour preserving; evaluation order of effects unchanged):
#   U1  `for x in (c1, .., cn): body` over a literal tuple/list of at most 8 simple elements, body without
#       break/continue/else                                   -> the body once per element, x replaced
#   U2  getattr(o, "name") / setattr(o, "name", v) with a literal name -> o.name / o.name = v
#   U3  any(E for v in (c1..cn)) / all(...) over a literal tuple   -> E[c1] or .. or E[cn]  /  and
#   U4  a, b = (e1, e2) with matching literal tuple             -> a = e1; b = e2   (only when no target
#       occurs in a later element, so the order of binding does not matter)
#   U5  {k1: v1, ..}[kc] with literal keys and a literal subscript -> vc
#   U6  "..{}..".format(a, b) with only automatic/indexed plain fields -> the equivalent f-string
#   P6  a local bound once to any expression and used exactly once, as the (possibly negated) test of the
#       immediately following `if`                             -> the expression moves into the test
#   P7  a local bound once to a call-free expression over names/attributes that are never stored in the
#       function                                               -> replaced by that expression at its uses
# =====================================================================================================
_SIMPLE_ELT = (ast.Name, ast.Constant, ast.Attribute)
_REPO = [None]        # the repository being normalised (set by apply)
_MOD = [None]         # the module of the function being finished


def _simple_val(e):
    """a value that may be duplicated: a name, constant, attribute chain - or a construction of a NEW record class from such"""
    if isinstance(e, _SIMPLE_ELT):
        return True
    from . import records
    R = records.RECORDS
    return R is not None and R.is_value(e, lambda v: isinstance(v, _SIMPLE_ELT) or (
        isinstance(v, ast.BinOp) and not _has(v, ast.Call)))


class _Rename(ast.NodeTransformer):
    def __init__(self, name, value):
        self.name, self.value = name, value

    def visit_Name(self, n):
        if n.id == self.name and isinstance(n.ctx, ast.Load):
            return ast.copy_location(copy.deepcopy(self.value), n)
        return n


class Spelling(ast.NodeTransformer):
    def __init__(self):
        self.changes = 0

    # U2 / U3 / U5 / U6 on expressions
    def visit_Call(self, n):
        self.generic_visit(n)
        # U28: re.compile(P[, flags]).fullmatch(s)  ->  re.fullmatch(P, s[, flags=flags])   (module-level functions of `re` compile the
        # pattern themselves; the same for match / search / findall / sub / split / finditer)
        if isinstance(n.func, ast.Attribute) and n.func.attr in ("fullmatch", "match", "search", "findall", "finditer", "sub", "subn", "split") \
                and isinstance(n.func.value, ast.Call) and ast.unparse(n.func.value.func) == "re.compile" and n.func.value.args \
                and len(n.func.value.args) <= 2 and not n.func.value.keywords and not n.keywords \
                and len(n.args) == (2 if n.func.attr in ("sub", "subn") else 1):
            c_ = n.func.value
            kws = [ast.keyword(arg="flags", value=c_.args[1])] if len(c_.args) == 2 else []
            self.changes += 1
            return ast.fix_missing_locations(ast.copy_location(ast.Call(
                func=ast.Attribute(value=ast.Name(id="re", ctx=ast.Load()), attr=n.func.attr, ctx=ast.Load()),
                args=[c_.args[0]] + list(n.args), keywords=kws), n))
        # U20: zip(T1, .., Tk) / enumerate(T) over literal tuples of simple elements -> the literal tuple of rows
        if isinstance(n.func, ast.Name) and n.func.id in ("zip", "enumerate") and not n.keywords and n.args \
                and all(isinstance(a, (ast.Tuple, ast.List)) and all(_simple_val(e) for e in a.elts) for a in n.args[:1 if n.func.id == "enumerate" else None]):
            if n.func.id == "zip":
                k = min(len(a.elts) for a in n.args)
                if k <= 12:
                    rows = [ast.Tuple(elts=[copy.deepcopy(a.elts[i]) for a in n.args], ctx=ast.Load()) for i in range(k)]
                    self.changes += 1
                    return ast.fix_missing_locations(ast.copy_location(ast.Tuple(elts=rows, ctx=ast.Load()), n))
            elif len(n.args) == 1 or (len(n.args) == 2 and isinstance(n.args[1], ast.Constant) and type(n.args[1].value) is int):
                st_ = n.args[1].value if len(n.args) == 2 else 0
                if len(n.args[0].elts) <= 12:
                    rows = [ast.Tuple(elts=[ast.Constant(value=st_ + i), copy.deepcopy(e)], ctx=ast.Load()) for i, e in enumerate(n.args[0].elts)]
                    self.changes += 1
                    return ast.fix_missing_locations(ast.copy_location(ast.Tuple(elts=rows, ctx=ast.Load()), n))
        # U17: (lambda a, b: E)(x, y)  ->  E[a := x, b := y]   (arguments simple, or used at most once and call-free)
        if isinstance(n.func, ast.Lambda) and not n.keywords and not any(isinstance(a, ast.Starred) for a in n.args):
            la = n.func.args
            ps = [a.arg for a in la.posonlyargs + la.args]
            if not (la.vararg or la.kwarg or la.kwonlyargs or la.defaults) and len(ps) == len(n.args) \
                    and not _has(n.func.body, (ast.Lambda, ast.NamedExpr, ast.ListComp, ast.SetComp, ast.DictComp, ast.GeneratorExp)):
                uses = {p_: sum(1 for x in ast.walk(n.func.body) if isinstance(x, ast.Name) and x.id == p_) for p_ in ps}
                if all(_is_simple(a) or (uses[p_] <= 1 and not _has(a, ast.Call)) for p_, a in zip(ps, n.args)):
                    from .desugar import _Sub
                    body = _Sub(dict(zip(ps, n.args))).visit(copy.deepcopy(n.func.body))
                    self.changes += 1
                    return ast.fix_missing_locations(ast.copy_location(body, n))
        # U15: f(**{"a": x, "b": y}) with literal identifier keys -> f(a=x, b=y)
        if any(k.arg is None and isinstance(k.value, ast.Dict) and k.value.keys and all(
                isinstance(q, ast.Constant) and isinstance(q.value, str) and q.value.isidentifier() for q in k.value.keys) for k in n.keywords):
            kws = []
            for k in n.keywords:
                if k.arg is None and isinstance(k.value, ast.Dict) and k.value.keys and all(
                        isinstance(q, ast.Constant) and isinstance(q.value, str) and q.value.isidentifier() for q in k.value.keys):
                    kws.extend(ast.keyword(arg=q.value, value=v) for q, v in zip(k.value.keys, k.value.values))
                else:
                    kws.append(k)
            if len({k.arg for k in kws if k.arg}) == len([k for k in kws if k.arg]):
                n.keywords = kws
                self.changes += 1
                ast.fix_missing_locations(n)
        if isinstance(n.func, ast.Name) and n.func.id == "getattr" and len(n.args) == 2 and not n.keywords \
                and isinstance(n.args[1], ast.Constant) and isinstance(n.args[1].value, str) and n.args[1].value.isidentifier():
            self.changes += 1
            return ast.copy_location(ast.Attribute(value=n.args[0], attr=n.args[1].value, ctx=ast.Load()), n)
        if isinstance(n.func, ast.Name) and n.func.id in ("any", "all") and len(n.args) == 1 and not n.keywords \
                and isinstance(n.args[0], (ast.GeneratorExp, ast.ListComp)) and len(n.args[0].generators) == 1:
            g = n.args[0].generators[0]
            if isinstance(g.target, ast.Name) and not g.ifs and not g.is_async and isinstance(g.iter, (ast.Tuple, ast.List)) \
                    and 1 <= len(g.iter.elts) <= 8 and all(_simple_val(e) for e in g.iter.elts):
                vals = [_Rename(g.target.id, e).visit(copy.deepcopy(n.args[0].elt)) for e in g.iter.elts]
                self.changes += 1
                op = ast.Or() if n.func.id == "any" else ast.And()
                inner = vals[0] if len(vals) == 1 else ast.BoolOp(op=op, values=vals)
                # any()/all() return a bool; the tests that consume them only look at the truth value
                return ast.fix_missing_locations(ast.copy_location(inner, n))
        if isinstance(n.func, ast.Attribute) and n.func.attr == "format" and isinstance(n.func.value, ast.Constant) \
                and isinstance(n.func.value.value, str) and not n.keywords and not any(isinstance(a, ast.Starred) for a in n.args):
            import string
            try:
                fields = list(string.Formatter().parse(n.func.value.value))
            except ValueError:
                return n
            parts, auto, ok = [], 0, True
            for lit, name, spec, conv in fields:
                if lit:
                    parts.append(ast.Constant(value=lit))
                if name is None:
                    continue
                if spec or conv:
                    ok = False
                    break
                if name == "":
                    idx, auto = auto, auto + 1
                elif name.isdigit():
                    idx = int(name)
                else:
                    ok = False
                    break
                if idx >= len(n.args):
                    ok = False
                    break
                parts.append(ast.FormattedValue(value=copy.deepcopy(n.args[idx]), conversion=-1, format_spec=None))
            if ok:
                self.changes += 1
                return ast.fix_missing_locations(ast.copy_location(ast.JoinedStr(values=parts), n))
        return n

    @staticmethod
    def _literal_rows(g):
        """rows of a comprehension clause over a literal table (no filters): [(names, values)] or None"""
        if g.is_async or g.ifs or not isinstance(g.iter, (ast.Tuple, ast.List)) or not (1 <= len(g.iter.elts) <= 12):
            return None
        names = [g.target.id] if isinstance(g.target, ast.Name) else \
            [t.id for t in g.target.elts] if isinstance(g.target, ast.Tuple) and all(isinstance(t, ast.Name) for t in g.target.elts) else None
        if names is None:
            return None
        rows = []
        for e in g.iter.elts:
            vals = [e] if isinstance(g.target, ast.Name) else list(e.elts) if isinstance(e, ast.Tuple) else None
            if vals is None or len(vals) != len(names) or not all(_simple_val(v) for v in vals):
                return None
            rows.append(vals)
        return names, rows

    @staticmethod
    def _inst(expr, names, vals):
        x = copy.deepcopy(expr)
        for nm, v in zip(names, vals):
            x = _Rename(nm, v).visit(x)
        return x

    def visit_DictComp(self, n):
        # U14: a comprehension over a literal table without filters -> the literal it builds
        self.generic_visit(n)
        r = self._literal_rows(n.generators[0]) if len(n.generators) == 1 else None
        if r is None:
            return n
        names, rows = r
        self.changes += 1
        new = ast.fix_missing_locations(ast.copy_location(ast.Dict(keys=[self._inst(n.key, names, v) for v in rows],
                                                                   values=[self._inst(n.value, names, v) for v in rows]), n))
        return self.generic_visit(new)       # the instantiated keys / values may fold further (record fields)

    def visit_ListComp(self, n):
        self.generic_visit(n)
        r = self._literal_rows(n.generators[0]) if len(n.generators) == 1 else None
        if r is None:
            return n
        names, rows = r
        self.changes += 1
        return self.generic_visit(ast.fix_missing_locations(ast.copy_location(
            ast.List(elts=[self._inst(n.elt, names, v) for v in rows], ctx=ast.Load()), n)))

    def visit_Attribute(self, n):
        # R1 / R2: a field or read-only property of a record construction
        self.generic_visit(n)
        if isinstance(n.ctx, ast.Load) and isinstance(n.value, ast.Call):
            from . import records
            from .desugar import is_pure
            R = records.RECORDS
            if R is not None and R.info_of_call(n.value) is not None and all(
                    is_pure(a) for a in list(n.value.args) + [k.value for k in n.value.keywords]):
                rep = R.field(n.value, n.attr)
                if rep is not None:
                    self.changes += 1
                    return self.visit(ast.fix_missing_locations(ast.copy_location(rep, n)))
        return n

    def visit_JoinedStr(self, n):
        # N3: constant string fields of an f-string are part of its text
        self.generic_visit(n)
        vals, changed = [], False
        for v in n.values:
            if isinstance(v, ast.FormattedValue) and v.conversion == -1 and v.format_spec is None \
                    and isinstance(v.value, ast.Constant) and type(v.value.value) is str:
                v = ast.Constant(value=v.value.value)
                changed = True
            if isinstance(v, ast.Constant) and vals and isinstance(vals[-1], ast.Constant):
                vals[-1] = ast.Constant(value=vals[-1].value + v.value)
                changed = True
            else:
                vals.append(v)
        if not changed:
            return n
        self.changes += 1
        if all(isinstance(v, ast.Constant) for v in vals):
            return ast.copy_location(ast.Constant(value="".join(v.value for v in vals)), n)
        return ast.fix_missing_locations(ast.copy_location(ast.JoinedStr(values=vals), n))

    def visit_Tuple(self, n):
        # U19: (a, *(b, c)) -> (a, b, c)
        self.generic_visit(n)
        if isinstance(n.ctx, ast.Load) and any(isinstance(e, ast.Starred) and isinstance(e.value, (ast.Tuple, ast.List)) for e in n.elts):
            elts = []
            for e in n.elts:
                if isinstance(e, ast.Starred) and isinstance(e.value, (ast.Tuple, ast.List)):
                    elts.extend(e.value.elts)
                else:
                    elts.append(e)
            n.elts = elts
            self.changes += 1
        return n

    def visit_BinOp(self, n):
        # N3: integer arithmetic between literals
        self.generic_visit(n)
        if isinstance(n.left, ast.Constant) and isinstance(n.right, ast.Constant) and type(n.left.value) is int and type(n.right.value) is int \
                and isinstance(n.op, (ast.Add, ast.Sub, ast.Mult, ast.LShift)) and not (isinstance(n.op, ast.LShift) and not 0 <= n.right.value < 64):
            v = {ast.Add: lambda a, b: a + b, ast.Sub: lambda a, b: a - b, ast.Mult: lambda a, b: a * b,
                 ast.LShift: lambda a, b: a << b}[type(n.op)](n.left.value, n.right.value)
            self.changes += 1
            return ast.copy_location(ast.Constant(value=v), n)
        return n

    def visit_BoolOp(self, n):
        # N4: a leading constant operand decides or drops out: `True and x` -> x, `False and x` -> False, `False or x` -> x
        self.generic_visit(n)
        vals = list(n.values)
        is_and = isinstance(n.op, ast.And)
        while len(vals) > 1 and isinstance(vals[0], ast.Constant) and isinstance(vals[0].value, bool):
            if vals[0].value is is_and:
                vals.pop(0)
                self.changes += 1
            else:
                self.changes += 1
                return ast.copy_location(ast.Constant(value=vals[0].value), n)
        if len(vals) == 1:
            return vals[0]
        n.values = vals
        return n

    def visit_Compare(self, n):
        self.generic_visit(n)
        # N3: a comparison between two integer / string literals
        if len(n.ops) == 1 and isinstance(n.left, ast.Constant) and isinstance(n.comparators[0], ast.Constant) \
                and type(n.left.value) in (int, str) and type(n.left.value) is type(n.comparators[0].value) \
                and isinstance(n.ops[0], (ast.Eq, ast.NotEq, ast.Lt, ast.LtE, ast.Gt, ast.GtE)):
            a, b = n.left.value, n.comparators[0].value
            v = {ast.Eq: a == b, ast.NotEq: a != b, ast.Lt: a < b, ast.LtE: a <= b, ast.Gt: a > b, ast.GtE: a >= b}[type(n.ops[0])]
            self.changes += 1
            return ast.copy_location(ast.Constant(value=v), n)
        # U24: a < b < c with simple operands -> a < b and b < c
        if len(n.ops) > 1 and all(_is_simple(x) for x in [n.left] + list(n.comparators)):
            vals = [n.left] + list(n.comparators)
            parts = [ast.Compare(left=copy.deepcopy(vals[i]), ops=[n.ops[i]], comparators=[copy.deepcopy(vals[i + 1])]) for i in range(len(n.ops))]
            self.changes += 1
            return self.visit(ast.fix_missing_locations(ast.copy_location(ast.BoolOp(op=ast.And(), values=parts), n)))
        # N3: identity of two literal singletons
        if len(n.ops) == 1 and isinstance(n.ops[0], (ast.Is, ast.IsNot)) and isinstance(n.left, ast.Constant) \
                and isinstance(n.comparators[0], ast.Constant) and (n.left.value is None or n.comparators[0].value is None
                                                                    or isinstance(n.left.value, bool) and isinstance(n.comparators[0].value, bool)):
            same = n.left.value is n.comparators[0].value
            self.changes += 1
            return ast.copy_location(ast.Constant(value=same if isinstance(n.ops[0], ast.Is) else not same), n)
        # R4: a record construction is never None
        if len(n.ops) == 1 and isinstance(n.ops[0], (ast.Is, ast.IsNot)) and isinstance(n.comparators[0], ast.Constant) \
                and n.comparators[0].value is None and isinstance(n.left, ast.Call):
            from . import records
            if records.RECORDS is not None and records.RECORDS.info_of_call(n.left) is not None and not _has(n.left.args, ast.Call):
                self.changes += 1
                return ast.copy_location(ast.Constant(value=isinstance(n.ops[0], ast.IsNot)), n)
        # N5: `self.<method> is [not] None` - a method of the class is never None
        if len(n.ops) == 1 and isinstance(n.ops[0], (ast.Is, ast.IsNot)) and isinstance(n.comparators[0], ast.Constant) \
                and n.comparators[0].value is None and isinstance(n.left, ast.Attribute) and isinstance(n.left.value, ast.Name) \
                and n.left.value.id == "self" and n.left.attr in getattr(self, "methods", ()):
            self.changes += 1
            return ast.copy_location(ast.Constant(value=isinstance(n.ops[0], ast.IsNot)), n)
        return self._compare_in(n)

    def _compare_in(self, n):
        # U13: `x in (c1, .., ck)` over a literal tuple of constants with x a name / attribute chain -> x == c1 or .. or x == ck
        if len(n.ops) == 1 and isinstance(n.ops[0], (ast.In, ast.NotIn)) and isinstance(n.comparators[0], (ast.Tuple, ast.List, ast.Set)) \
                and 1 <= len(n.comparators[0].elts) <= 4 and all(isinstance(e, ast.Constant) and type(e.value) in (int, str, bytes) for e in n.comparators[0].elts) \
                and _is_simple(n.left) and not isinstance(n.left, ast.Constant):
            pos = isinstance(n.ops[0], ast.In)
            tests = [ast.Compare(left=copy.deepcopy(n.left), ops=[ast.Eq() if pos else ast.NotEq()], comparators=[e]) for e in n.comparators[0].elts]
            self.changes += 1
            out = tests[0] if len(tests) == 1 else ast.BoolOp(op=ast.Or() if pos else ast.And(), values=tests)
            return ast.fix_missing_locations(ast.copy_location(out, n))
        return n

    def visit_Subscript(self, n):
        self.generic_visit(n)
        if isinstance(n.value, ast.Dict) and isinstance(n.ctx, ast.Load) and isinstance(n.slice, ast.Constant) \
                and all(isinstance(k, ast.Constant) for k in n.value.keys):
            for k, v in zip(n.value.keys, n.value.values):
                if k.value == n.slice.value and type(k.value) is type(n.slice.value):
                    self.changes += 1
                    return ast.copy_location(v, n)
        return n

    def _boolish(self, e):
        if isinstance(e, ast.Compare):
            return True
        if isinstance(e, ast.UnaryOp) and isinstance(e.op, ast.Not):
            return True
        if isinstance(e, ast.BoolOp):
            return all(self._boolish(v) for v in e.values)
        if isinstance(e, ast.Constant):
            return isinstance(e.value, bool)
        if isinstance(e, ast.Call) and isinstance(e.func, ast.Name) and e.func.id in ("isinstance", "bool", "callable", "hasattr"):
            return True
        if isinstance(e, ast.Name):
            return e.id in getattr(self, "bool_locals", ())
        return False

    # statements
    def sink_selected(self, out):
        """[..., If-chain assigning v = simple_i in every branch, S(v)] with v used nowhere else in S's block -> S moves into the
        branches with v replaced (tail duplication of one statement)."""
        i = 0
        while i + 1 < len(out):
            c, nxt = out[i], out[i + 1]
            if isinstance(c, ast.If) and isinstance(nxt, (ast.Expr, ast.Assign, ast.Return, ast.If)):
                branches, cur, v = [], c, None
                ok = True
                def sel(blk):
                    # the selection is the branch's last statement; a constant flag set earlier in the branch and not mentioned
                    # after that is moved to the end first (`flag = True; x = f()` -> `x = f(); flag = True`)
                    if not blk:
                        return False
                    is_sel = lambda b_: isinstance(b_, ast.Assign) and len(b_.targets) == 1 and isinstance(b_.targets[0], ast.Name)
                    if not (is_sel(blk[-1]) and _simple_val(blk[-1].value)) or (
                            isinstance(nxt, ast.If) and isinstance(strip_not_(nxt.test), ast.Name) and blk[-1].targets[0].id != strip_not_(nxt.test).id):
                        want = strip_not_(nxt.test).id if isinstance(nxt, ast.If) and isinstance(strip_not_(nxt.test), ast.Name) else None
                        for k_ in range(len(blk) - 1, -1, -1):
                            b_ = blk[k_]
                            if want and is_sel(b_) and b_.targets[0].id == want and isinstance(b_.value, ast.Constant) and not any(
                                    isinstance(n, ast.Name) and n.id == want for x in blk[k_ + 1:] for n in ast.walk(x)) \
                                    and not _has(blk[k_ + 1:], (ast.Return, ast.Raise, ast.Break, ast.Continue)):
                                blk.append(blk.pop(k_))
                                break
                            if want and any(isinstance(n, ast.Name) and n.id == want for n in ast.walk(b_)):
                                break
                    return is_sel(blk[-1]) and _simple_val(blk[-1].value)
                strip_not_ = lambda t: t.operand if isinstance(t, ast.UnaryOp) and isinstance(t.op, ast.Not) else t
                while True:
                    if sel(cur.body):
                        name = cur.body[-1].targets[0].id
                        if v is None:
                            v = name
                        ok = ok and name == v
                        branches.append(cur.body)
                    else:
                        ok = False
                    if len(cur.orelse) == 1 and isinstance(cur.orelse[0], ast.If):
                        cur = cur.orelse[0]
                        continue
                    if sel(cur.orelse) and cur.orelse[-1].targets[0].id == v:
                        branches.append(cur.orelse)
                    else:
                        ok = False
                    break
                # a compound successor (an `if` on the selected value) or branches with more than the selection: only a flag
                # that lives for exactly this hand-over (every load of it is in the successor) and constant selections
                plain = all(len(b) == 1 for b in branches) and not isinstance(nxt, ast.If)
                uses_next = sum(1 for n in ast.walk(nxt) if isinstance(n, ast.Name) and n.id == v and isinstance(n.ctx, ast.Load)) if v else 0
                uses_rest = sum(1 for t in out[i + 2:] for n in ast.walk(t) if isinstance(n, ast.Name) and n.id == v) if v else 1
                if ok and v and not plain:
                    fn_ = getattr(self, "fn", None)
                    all_loads = sum(1 for n in ast.walk(fn_) if isinstance(n, ast.Name) and n.id == v and isinstance(n.ctx, ast.Load)) if fn_ is not None else -1
                    ok = all_loads == uses_next and all(_simple_val(b[-1].value) for b in branches) \
                        and not any(isinstance(n, ast.Name) and n.id == v for b in branches for x in b[:-1] for n in ast.walk(x))
                if ok and v and uses_next >= 1 and uses_rest == 0 and not any(
                        isinstance(n, ast.Name) and n.id == v and isinstance(n.ctx, ast.Store) for n in ast.walk(nxt)):
                    for b in branches:
                        val = b[-1].value
                        b[-1:] = self.block([ast.fix_missing_locations(_Rename(v, val).visit(copy.deepcopy(nxt)))]) or [ast.copy_location(ast.Pass(), nxt)]
                    del out[i + 1]
                    self.changes += 1
                    continue
            i += 1
        return out

    def loop_forms(self, out):
        """W1: `i = 0; while i < len(X): v = X[i]; BODY; i += 1`  ->  `for v in X: BODY`   (i used nowhere else, no continue in BODY)
        W2: `L = [E for t in IT if C]; for u in L: BODY` (L used only there, E the bare target(s), C over the targets and names BODY
            does not bind)  ->  `for t in list(IT): if C: BODY[u := E]`"""
        fn_ = getattr(self, "fn", None)
        i = 0
        while i + 1 < len(out):
            a, b = out[i], out[i + 1]
            # W1
            if isinstance(a, ast.Assign) and len(a.targets) == 1 and isinstance(a.targets[0], ast.Name) and isinstance(a.value, ast.Constant) \
                    and a.value.value == 0 and type(a.value.value) is int and isinstance(b, ast.While) and not b.orelse and len(b.body) >= 2:
                ix = a.targets[0].id
                t = b.test
                first, last = b.body[0], b.body[-1]
                if isinstance(t, ast.Compare) and len(t.ops) == 1 and isinstance(t.ops[0], ast.Lt) and isinstance(t.left, ast.Name) and t.left.id == ix \
                        and isinstance(t.comparators[0], ast.Call) and isinstance(t.comparators[0].func, ast.Name) and t.comparators[0].func.id == "len" \
                        and len(t.comparators[0].args) == 1 and _is_simple(t.comparators[0].args[0]) \
                        and isinstance(first, ast.Assign) and len(first.targets) == 1 and isinstance(first.targets[0], ast.Name) \
                        and isinstance(first.value, ast.Subscript) and ast.unparse(first.value.value) == ast.unparse(t.comparators[0].args[0]) \
                        and isinstance(first.value.slice, ast.Name) and first.value.slice.id == ix \
                        and isinstance(last, ast.AugAssign) and isinstance(last.target, ast.Name) and last.target.id == ix and isinstance(last.op, ast.Add) \
                        and isinstance(last.value, ast.Constant) and last.value.value == 1:
                    mid = b.body[1:-1]
                    uses_mid = any(isinstance(n, ast.Name) and n.id == ix for x in mid for n in ast.walk(x))
                    total = sum(1 for n in ast.walk(fn_) if isinstance(n, ast.Name) and n.id == ix) if fn_ is not None else -1
                    own_cont = any(isinstance(n, (ast.Continue, ast.Break)) for x in mid for n in ast.walk(x))
                    if not uses_mid and total == 4 and not own_cont:
                        loop = ast.For(target=ast.Name(id=first.targets[0].id, ctx=ast.Store()), iter=t.comparators[0].args[0],
                                       body=mid or [ast.Pass()], orelse=[], lineno=b.lineno)
                        out[i:i + 2] = [ast.fix_missing_locations(ast.copy_location(loop, b))]
                        self.changes += 1
                        continue
            # W1b: the element is not bound to a name: X[i] is used in place
            if isinstance(a, ast.Assign) and len(a.targets) == 1 and isinstance(a.targets[0], ast.Name) and isinstance(a.value, ast.Constant) \
                    and a.value.value == 0 and type(a.value.value) is int and isinstance(b, ast.While) and not b.orelse and len(b.body) >= 2 \
                    and fn_ is not None:
                ix = a.targets[0].id
                t = b.test
                last = b.body[-1]
                if isinstance(t, ast.Compare) and len(t.ops) == 1 and isinstance(t.ops[0], ast.Lt) and isinstance(t.left, ast.Name) and t.left.id == ix \
                        and isinstance(t.comparators[0], ast.Call) and isinstance(t.comparators[0].func, ast.Name) and t.comparators[0].func.id == "len" \
                        and len(t.comparators[0].args) == 1 and _is_simple(t.comparators[0].args[0]) \
                        and isinstance(last, ast.AugAssign) and isinstance(last.target, ast.Name) and last.target.id == ix and isinstance(last.op, ast.Add) \
                        and isinstance(last.value, ast.Constant) and last.value.value == 1:
                    xs = ast.unparse(t.comparators[0].args[0])
                    mid = b.body[:-1]
                    subs = [n for x in mid for n in ast.walk(x) if isinstance(n, ast.Subscript) and isinstance(n.ctx, ast.Load)
                            and ast.unparse(n.value) == xs and isinstance(n.slice, ast.Name) and n.slice.id == ix]
                    ix_uses = sum(1 for x in mid for n in ast.walk(x) if isinstance(n, ast.Name) and n.id == ix)
                    total = sum(1 for n in ast.walk(fn_) if isinstance(n, ast.Name) and n.id == ix)
                    own_cont = any(isinstance(n, (ast.Continue, ast.Break)) for x in mid for n in ast.walk(x))
                    if subs and ix_uses == len(subs) and total == 3 + len(subs) and not own_cont:
                        elem = f"{ix}__item"

                        class E_(ast.NodeTransformer):
                            def visit_Subscript(self_, n):
                                if any(n is q for q in subs):
                                    return ast.copy_location(ast.Name(id=elem, ctx=ast.Load()), n)
                                self_.generic_visit(n)
                                return n
                        mid = [E_().visit(x) for x in mid]
                        loop = ast.For(target=ast.Name(id=elem, ctx=ast.Store()), iter=t.comparators[0].args[0], body=mid, orelse=[], lineno=b.lineno)
                        out[i:i + 2] = [ast.fix_missing_locations(ast.copy_location(loop, b))]
                        self.changes += 1
                        continue
            # W2
            if isinstance(a, ast.Assign) and len(a.targets) == 1 and isinstance(a.targets[0], ast.Name) and isinstance(a.value, ast.ListComp) \
                    and len(a.value.generators) == 1 and isinstance(b, ast.For) and isinstance(b.iter, ast.Name) and b.iter.id == a.targets[0].id \
                    and not b.orelse and fn_ is not None:
                L = a.targets[0].id
                g = a.value.generators[0]
                total = sum(1 for n in ast.walk(fn_) if isinstance(n, ast.Name) and n.id == L)
                tnames = [n.id for n in ast.walk(g.target) if isinstance(n, ast.Name)]
                elt_ok = (isinstance(a.value.elt, ast.Name) and a.value.elt.id in tnames and isinstance(b.target, ast.Name)) or \
                    (ast.unparse(a.value.elt) == ast.unparse(g.target) and ast.unparse(b.target) == ast.unparse(g.target))
                bound_in_body = {n.id for x in b.body for n in ast.walk(x) if isinstance(n, ast.Name) and isinstance(n.ctx, ast.Store)}
                cond_names = {n.id for c in g.ifs for n in ast.walk(c) if isinstance(n, ast.Name)}
                if total == 2 and elt_ok and not g.is_async and not any(_has(c, (ast.Call, ast.NamedExpr)) for c in g.ifs) \
                        and not ((cond_names - set(tnames)) & bound_in_body) and not (set(tnames) & bound_in_body) \
                        and not any(isinstance(n, ast.Name) and n.id in tnames and n.id != getattr(a.value.elt, "id", None)
                                    for x in b.body for n in ast.walk(x)):
                    body = b.body
                    if isinstance(b.target, ast.Name) and isinstance(a.value.elt, ast.Name) and b.target.id != a.value.elt.id:
                        body = [_RenameAll(b.target.id, a.value.elt.id).visit(x) for x in body]
                    for c in reversed(g.ifs):
                        body = [ast.If(test=c, body=body, orelse=[])]
                    it = g.iter
                    if not (isinstance(it, ast.Call) and isinstance(it.func, ast.Name) and it.func.id == "list"):
                        it = ast.Call(func=ast.Name(id="list", ctx=ast.Load()), args=[it], keywords=[])
                    loop = ast.For(target=g.target, iter=it, body=body, orelse=[], lineno=b.lineno)
                    out[i:i + 2] = [ast.fix_missing_locations(ast.copy_location(loop, b))]
                    self.changes += 1
                    continue
            i += 1
        return out

    def flag_loops(self, out):
        """W3: `f = False; while not f: BODY; TAIL` where BODY sets f only to constants in tail position of the iteration, f is used nowhere
        else and TAIL ends with return/raise  ->  `while True: BODY'` with `f = True` replaced by TAIL and `f = False` dropped."""
        fn_ = getattr(self, "fn", None)
        i = 0
        while i + 1 < len(out) and fn_ is not None:
            a, b = out[i], out[i + 1]
            tail = out[i + 2:]
            if isinstance(a, ast.Assign) and len(a.targets) == 1 and isinstance(a.targets[0], ast.Name) and isinstance(a.value, ast.Constant) \
                    and a.value.value is False and isinstance(b, ast.While) and not b.orelse and isinstance(b.test, ast.UnaryOp) \
                    and isinstance(b.test.op, ast.Not) and isinstance(b.test.operand, ast.Name) and b.test.operand.id == a.targets[0].id \
                    and tail and isinstance(tail[-1], (ast.Return, ast.Raise)) and len(tail) <= 3 \
                    and not any(isinstance(n, (ast.Break, ast.Continue)) for x in b.body for n in ast.walk(x)):
                f = a.targets[0].id
                occurrences = [n for n in ast.walk(fn_) if isinstance(n, ast.Name) and n.id == f]
                inside = [n for x in b.body for n in ast.walk(x) if isinstance(n, ast.Name) and n.id == f]
                ok = [len(occurrences) == 2 + len(inside) and not any(isinstance(n, ast.Name) and n.id == f for x in tail for n in ast.walk(x))]

                def rewrite(stmts, is_tail):
                    res = []
                    for j, st in enumerate(stmts):
                        last = is_tail and j == len(stmts) - 1
                        if isinstance(st, ast.Assign) and len(st.targets) == 1 and isinstance(st.targets[0], ast.Name) and st.targets[0].id == f:
                            if not (last and isinstance(st.value, ast.Constant) and isinstance(st.value.value, bool)):
                                ok[0] = False
                                return stmts
                            if st.value.value:
                                res.extend(copy.deepcopy(t_) for t_ in tail)
                            continue
                        if isinstance(st, ast.If):
                            st.body = rewrite(st.body, last) or [ast.copy_location(ast.Pass(), st)]
                            st.orelse = rewrite(st.orelse, last)
                        elif isinstance(st, ast.With):
                            st.body = rewrite(st.body, last) or [ast.copy_location(ast.Pass(), st)]
                        elif any(isinstance(n, ast.Name) and n.id == f for n in ast.walk(st)):
                            ok[0] = False
                            return stmts
                        res.append(st)
                    return res
                saved = copy.deepcopy(b.body)
                nb = rewrite(b.body, True)
                if ok[0] and inside:
                    b.body = nb or [ast.copy_location(ast.Pass(), b)]
                    b.test = ast.copy_location(ast.Constant(value=True), b.test)
                    out[i:] = [ast.fix_missing_locations(b)]
                    self.changes += 1
                    continue
                b.body = saved
            i += 1
        return out

    def merge_dict_building(self, out):
        """U18: `d = {..}` / `d = {}` / `d = dict()` directly followed by `d[<literal>] = v` statements -> one dict literal"""
        i = 0
        while i + 1 < len(out):
            a = out[i]
            if isinstance(a, ast.Assign) and len(a.targets) == 1 and isinstance(a.targets[0], ast.Name) and (
                    (isinstance(a.value, ast.Dict) and all(isinstance(k, ast.Constant) for k in a.value.keys))
                    or (isinstance(a.value, ast.Call) and isinstance(a.value.func, ast.Name) and a.value.func.id == "dict"
                        and not a.value.args and not a.value.keywords)):
                d = a.targets[0].id
                b = out[i + 1]
                if isinstance(b, ast.Assign) and len(b.targets) == 1 and isinstance(b.targets[0], ast.Subscript) \
                        and isinstance(b.targets[0].value, ast.Name) and b.targets[0].value.id == d \
                        and isinstance(b.targets[0].slice, ast.Constant) and type(b.targets[0].slice.value) in (str, int, bytes) \
                        and not any(isinstance(n, ast.Name) and n.id == d for n in ast.walk(b.value)):
                    if not isinstance(a.value, ast.Dict):
                        a.value = ast.copy_location(ast.Dict(keys=[], values=[]), a.value)
                    k = b.targets[0].slice
                    pos = next((j for j, q in enumerate(a.value.keys) if q.value == k.value and type(q.value) is type(k.value)), None)
                    if pos is None:
                        a.value.keys.append(k)
                        a.value.values.append(b.value)
                    elif not _has(a.value.values[pos], ast.Call):
                        a.value.values[pos] = b.value
                    else:
                        i += 1
                        continue
                    del out[i + 1]
                    ast.fix_missing_locations(a)
                    self.changes += 1
                    continue
            i += 1
        return out

    def block(self, stmts):
        out = []
        for s in stmts:
            s = self.visit(s)
            for fld in ("body", "orelse", "finalbody"):
                b = getattr(s, fld, None)
                if isinstance(b, list) and b and isinstance(b[0], ast.stmt) and not isinstance(s, (ast.FunctionDef, ast.AsyncFunctionDef, ast.ClassDef)):
                    setattr(s, fld, self.block(b))
            if isinstance(s, ast.Try):
                for h in s.handlers:
                    h.body = self.block(h.body)
            out.extend(self.stmt(s))
        return self.sink_selected(self.flag_loops(self.loop_forms(self.merge_dict_building(out))))

    @staticmethod
    def _truth_form(t):
        """in a truth-value position `b if a else a` is `a and b`, `a if a else b` is `a or b` (the inverse of T2, for a value
        expression that was inlined into a test)"""
        if isinstance(t, ast.IfExp):
            a, b, c = t.test, Spelling._truth_form(t.body), Spelling._truth_form(t.orelse)
            if ast.dump(a) == ast.dump(t.orelse):
                return ast.copy_location(ast.BoolOp(op=ast.And(), values=[a, b]), t)
            if ast.dump(a) == ast.dump(t.body):
                return ast.copy_location(ast.BoolOp(op=ast.Or(), values=[a, c]), t)
            return t
        if isinstance(t, ast.UnaryOp) and isinstance(t.op, ast.Not):
            t.operand = Spelling._truth_form(t.operand)
            return t
        if isinstance(t, ast.Call) and isinstance(t.func, ast.Name) and t.func.id == "bool" and len(t.args) == 1 and not t.keywords:
            return Spelling._truth_form(t.args[0])        # only the truth value of a test is looked at
        if isinstance(t, ast.BoolOp):
            t.values = [Spelling._truth_form(v) for v in t.values]
            # flatten nested same-operator chains
            flat = []
            for v in t.values:
                if isinstance(v, ast.BoolOp) and type(v.op) is type(t.op):
                    flat.extend(v.values)
                else:
                    flat.append(v)
            t.values = flat
            return t
        return t

    def stmt(self, s):
        if isinstance(s, (ast.If, ast.While)) and (_has(s.test, ast.IfExp) or any(
                isinstance(c_, ast.Call) and isinstance(c_.func, ast.Name) and c_.func.id == "bool" for c_ in ast.walk(s.test))):
            s.test = ast.fix_missing_locations(self._truth_form(s.test))
        # N4: `if True:` / `if False:` (a parameter replaced by the constant it was called with) -> the selected branch
        if isinstance(s, ast.If) and isinstance(s.test, ast.Constant) and isinstance(s.test.value, bool):
            self.changes += 1
            return list(s.body if s.test.value else s.orelse)
        # B1: x = <boolean expression>  ->  if <expression>: x = True else: x = False   (every operand is a bool)
        if isinstance(s, ast.Assign) and len(s.targets) == 1 and isinstance(s.targets[0], (ast.Name, ast.Attribute)) \
                and (isinstance(s.value, ast.BoolOp) and all(self._boolish(v) for v in s.value.values)
                     or isinstance(s.value, ast.Compare) and isinstance(s.targets[0], ast.Attribute) and _is_simple(s.targets[0])
                     and all(isinstance(o, (ast.Lt, ast.LtE, ast.Gt, ast.GtE, ast.Eq, ast.NotEq)) for o in s.value.ops)) \
                and not _has(s.value, ast.NamedExpr):
            self.changes += 1
            mk = lambda c: ast.Assign(targets=[copy.deepcopy(s.targets[0])], value=ast.Constant(value=c), lineno=s.lineno)
            return [ast.fix_missing_locations(ast.copy_location(ast.If(test=s.value, body=[mk(True)], orelse=[mk(False)]), s))]
        # R0: r = X(f(), g())  ->  r__0 = f(); r__1 = g(); r = X(r__0, r__1)   (the record is then a value over plain names)
        if isinstance(s, ast.Assign) and len(s.targets) == 1 and isinstance(s.targets[0], ast.Name) and isinstance(s.value, ast.Call):
            from . import records as _rec2
            R2 = _rec2.RECORDS
            if R2 is not None and R2.info_of_call(s.value) is not None and not any(isinstance(a, ast.Starred) for a in s.value.args) \
                    and any(_has(a, ast.Call) and R2.info_of_call(a) is None for a in list(s.value.args) + [k.value for k in s.value.keywords]):
                pre = []
                base = s.targets[0].id
                for i_, a in enumerate(s.value.args):
                    if _has(a, ast.Call) and R2.info_of_call(a) is None:
                        tmp = f"{base}__r{i_}"
                        pre.append(ast.Assign(targets=[ast.Name(id=tmp, ctx=ast.Store())], value=a, lineno=s.lineno))
                        s.value.args[i_] = ast.Name(id=tmp, ctx=ast.Load())
                for k in s.value.keywords:
                    if k.arg is not None and _has(k.value, ast.Call) and R2.info_of_call(k.value) is None:
                        tmp = f"{base}__r{k.arg}"
                        pre.append(ast.Assign(targets=[ast.Name(id=tmp, ctx=ast.Store())], value=k.value, lineno=s.lineno))
                        k.value = ast.Name(id=tmp, ctx=ast.Load())
                self.changes += 1
                return [ast.fix_missing_locations(ast.copy_location(x, s)) for x in pre] + [ast.fix_missing_locations(s)]
        # T2: `a or b` / `a and b` used for its VALUE (an argument, an assigned or returned value) with a simple first operand
        #     -> `a if a else b` / `b if a else a`, which T1 then turns into an if statement
        if isinstance(s, (ast.Assign, ast.AugAssign, ast.Return, ast.Expr)) and s.value is not None:
            def value_boolops(e, out):
                if isinstance(e, (ast.Lambda, ast.ListComp, ast.SetComp, ast.DictComp, ast.GeneratorExp)):
                    return
                if isinstance(e, ast.BoolOp):
                    out.append(e)
                    return
                if isinstance(e, ast.IfExp):
                    value_boolops(e.body, out)
                    value_boolops(e.orelse, out)
                    return
                if isinstance(e, ast.UnaryOp) and isinstance(e.op, ast.Not):
                    return
                if isinstance(e, ast.Call) and isinstance(e.func, ast.Name) and e.func.id == "bool":
                    return            # bool(a and b): the operand is only asked for its truth value
                for c_ in ast.iter_child_nodes(e):
                    if isinstance(c_, ast.expr):
                        value_boolops(c_, out)
                    elif isinstance(c_, ast.keyword):
                        value_boolops(c_.value, out)
            found = []
            value_boolops(s.value, found)
            found = [b_ for b_ in found if _is_simple(b_.values[0]) and not isinstance(b_.values[0], ast.Constant)
                     and not all(self._boolish(v) for v in b_.values) and not _has(b_, ast.NamedExpr)]
            if found:
                b_ = found[0]
                a_ = b_.values[0]
                rest = b_.values[1] if len(b_.values) == 2 else ast.BoolOp(op=b_.op, values=b_.values[1:])
                if isinstance(b_.op, ast.Or):
                    ife = ast.IfExp(test=copy.deepcopy(a_), body=copy.deepcopy(a_), orelse=rest)
                else:
                    ife = ast.IfExp(test=copy.deepcopy(a_), body=rest, orelse=copy.deepcopy(a_))
                ast.copy_location(ife, b_)
                from .desugar import Desugar as _D2
                _D2._replace(s, "value", b_, ife)
                ast.fix_missing_locations(s)
                self.changes += 1
                return self.block([s])
        # T1: a conditional expression inside a simple statement, evaluated before anything with an effect
        #     stmt[.. (a if c else b) ..]  ->  if c: stmt[.. a ..] else: stmt[.. b ..]
        if isinstance(s, (ast.Assign, ast.AugAssign, ast.Return, ast.Expr)) and s.value is not None:
            from .desugar import Desugar as _D, is_pure as _pure
            scope_skip = set()
            for n in ast.walk(s.value):
                if isinstance(n, (ast.Lambda, ast.ListComp, ast.SetComp, ast.DictComp, ast.GeneratorExp)):
                    scope_skip |= {id(x) for x in ast.walk(n) if x is not n}
            tern = [n for n in ast.walk(s.value) if isinstance(n, ast.IfExp) and id(n) not in scope_skip]
            tern.sort(key=lambda n: (n.lineno, n.col_offset))
            if tern:
                t = tern[0]
                before = _D._before(s.value, t)
                if before is not None and all(_pure(x) for x in before) and not _has(t.test, ast.NamedExpr):
                    def variant(repl):
                        c = copy.deepcopy(s)
                        tt = next(n for n in ast.walk(c.value) if isinstance(n, ast.IfExp) and (n.lineno, n.col_offset) == (t.lineno, t.col_offset)
                                  and ast.dump(n) == ast.dump(t))
                        _D._replace(c, "value", tt, copy.deepcopy(repl))
                        return c
                    self.changes += 1
                    new_if = ast.If(test=copy.deepcopy(t.test), body=[variant(t.body)], orelse=[variant(t.orelse)])
                    return self.block([ast.fix_missing_locations(ast.copy_location(new_if, s))])
        # D2: x = x + <integer literal>  ->  x += <literal>   (x a name or attribute chain; no difference for numbers)
        if isinstance(s, ast.Assign) and len(s.targets) == 1 and _is_simple(s.targets[0]) and not isinstance(s.targets[0], ast.Constant) \
                and isinstance(s.value, ast.BinOp) and isinstance(s.value.op, (ast.Add, ast.Sub)) and isinstance(s.value.right, ast.Constant) \
                and type(s.value.right.value) is int and ast.unparse(s.value.left) == ast.unparse(s.targets[0]):
            self.changes += 1
            return [ast.fix_missing_locations(ast.copy_location(ast.AugAssign(target=s.targets[0], op=s.value.op, value=s.value.right), s))]
        # B2: return <boolean and/or expression>  ->  if <expression>: return True else: return False
        if isinstance(s, ast.Return) and isinstance(s.value, ast.BoolOp) and all(self._boolish(v) for v in s.value.values) \
                and not _has(s.value, ast.NamedExpr):
            self.changes += 1
            mk = lambda c: ast.Return(value=ast.Constant(value=c))
            return [ast.fix_missing_locations(ast.copy_location(ast.If(test=s.value, body=[mk(True)], orelse=[mk(False)]), s))]
        # U2 setattr
        if isinstance(s, ast.Expr) and isinstance(s.value, ast.Call) and isinstance(s.value.func, ast.Name) and s.value.func.id == "setattr" \
                and len(s.value.args) == 3 and not s.value.keywords and isinstance(s.value.args[1], ast.Constant) \
                and isinstance(s.value.args[1].value, str) and s.value.args[1].value.isidentifier():
            self.changes += 1
            tgt = ast.Attribute(value=s.value.args[0], attr=s.value.args[1].value, ctx=ast.Store())
            return [ast.fix_missing_locations(ast.copy_location(ast.Assign(targets=[tgt], value=s.value.args[2], lineno=s.lineno), s))]
        # U4 tuple unpack of a literal tuple
        if isinstance(s, ast.Assign) and len(s.targets) == 1 and isinstance(s.targets[0], (ast.Tuple, ast.List)) \
                and isinstance(s.value, (ast.Tuple, ast.List)) and len(s.targets[0].elts) == len(s.value.elts) \
                and all(isinstance(t, ast.Name) for t in s.targets[0].elts) and not any(isinstance(e, ast.Starred) for e in s.value.elts):
            names = {t.id for t in s.targets[0].elts}
            # (calls in the values are fine: binding a local name between two of them is invisible to them)
            if not any(isinstance(x, ast.Name) and x.id in names for e in s.value.elts for x in ast.walk(e)) \
                    and not any(isinstance(x, (ast.Lambda, ast.NamedExpr, ast.Await, ast.Yield, ast.YieldFrom)) for e in s.value.elts for x in ast.walk(e)):
                self.changes += 1
                return [ast.fix_missing_locations(ast.copy_location(ast.Assign(targets=[t], value=e, lineno=s.lineno), s))
                        for t, e in zip(s.targets[0].elts, s.value.elts)]
        # U4r: a, b = X(p, q) for a NEW record class X -> a, b = (p, q)   (a NamedTuple unpacks to its fields in order)
        if isinstance(s, ast.Assign) and len(s.targets) == 1 and isinstance(s.targets[0], (ast.Tuple, ast.List)) and isinstance(s.value, ast.Call):
            from . import records as _rec3
            inf = _rec3.RECORDS.info_of_call(s.value) if _rec3.RECORDS is not None else None
            b_ = inf.bind(s.value) if inf is not None else None
            if b_ is not None and len(inf.fields) == len(s.targets[0].elts):
                s.value = ast.copy_location(ast.Tuple(elts=[b_[f_] for f_ in inf.fields], ctx=ast.Load()), s.value)
                self.changes += 1
                return self.block([ast.fix_missing_locations(s)])
        # U4b: the same with attribute targets or a target that is read by a later element: the assignments are emitted in an
        # order in which no value reads a target bound before it (call-free values, so evaluation order is immaterial)
        if isinstance(s, ast.Assign) and len(s.targets) == 1 and isinstance(s.targets[0], (ast.Tuple, ast.List)) \
                and isinstance(s.value, (ast.Tuple, ast.List)) and 2 <= len(s.targets[0].elts) == len(s.value.elts) <= 4 \
                and all(_is_simple(t) and not isinstance(t, ast.Constant) for t in s.targets[0].elts) \
                and not any(isinstance(e, ast.Starred) for e in s.value.elts) \
                and not any(isinstance(x, (ast.Call, ast.Await, ast.NamedExpr, ast.Yield, ast.YieldFrom, ast.Lambda)) for e in s.value.elts for x in ast.walk(e)):
            import itertools
            tg = [ast.unparse(t) for t in s.targets[0].elts]

            def reads(e, t):
                for x in ast.walk(e):
                    if isinstance(x, (ast.Name, ast.Attribute)):
                        u = ast.unparse(x)
                        if u == t or u.startswith(t + ".") or t.startswith(u + "."):
                            return True
                return False
            n_ = len(tg)
            for perm in itertools.permutations(range(n_)):
                if all(not reads(s.value.elts[perm[j]], tg[perm[i]]) for i in range(n_) for j in range(i + 1, n_)):
                    self.changes += 1
                    return [ast.fix_missing_locations(ast.copy_location(
                        ast.Assign(targets=[s.targets[0].elts[k]], value=s.value.elts[k], lineno=s.lineno), s)) for k in perm]
        # U21: a + b"".join(E for v in it [if c]) + c  (returned or assigned to a name)  ->  acc = a; for v in it: acc += E; acc += c
        if isinstance(s, (ast.Return, ast.Assign)) and s.value is not None and (isinstance(s, ast.Return) or (
                len(s.targets) == 1 and isinstance(s.targets[0], ast.Name))):
            parts = []

            def flat_add(e):
                if isinstance(e, ast.BinOp) and isinstance(e.op, ast.Add):
                    flat_add(e.left)
                    flat_add(e.right)
                else:
                    parts.append(e)
            flat_add(s.value)

            def is_join(e):
                return isinstance(e, ast.Call) and isinstance(e.func, ast.Attribute) and e.func.attr == "join" and len(e.args) == 1 \
                    and not e.keywords and isinstance(e.func.value, ast.Constant) and e.func.value.value in (b"", "") \
                    and isinstance(e.args[0], (ast.GeneratorExp, ast.ListComp)) and len(e.args[0].generators) == 1 \
                    and not e.args[0].generators[0].is_async
            if sum(1 for e in parts if is_join(e)) == 1 and not any(_has(e, (ast.NamedExpr, ast.Await, ast.Yield, ast.YieldFrom)) for e in parts):
                acc = s.targets[0].id if isinstance(s, ast.Assign) else "__joined"
                if not (isinstance(s, ast.Assign) and any(isinstance(n, ast.Name) and n.id == acc for e in parts for n in ast.walk(e))):
                    out, started = [], False
                    for e in parts:
                        if is_join(e):
                            if not started:
                                out.append(ast.Assign(targets=[ast.Name(id=acc, ctx=ast.Store())], value=ast.Constant(value=e.func.value.value), lineno=s.lineno))
                                started = True
                            g = e.args[0].generators[0]
                            body = [ast.AugAssign(target=ast.Name(id=acc, ctx=ast.Store()), op=ast.Add(), value=e.args[0].elt)]
                            for c_ in reversed(g.ifs):
                                body = [ast.If(test=c_, body=body, orelse=[])]
                            out.append(ast.For(target=g.target, iter=g.iter, body=body, orelse=[], lineno=s.lineno))
                        elif not started:
                            out.append(ast.Assign(targets=[ast.Name(id=acc, ctx=ast.Store())], value=e, lineno=s.lineno))
                            started = True
                        else:
                            out.append(ast.AugAssign(target=ast.Name(id=acc, ctx=ast.Store()), op=ast.Add(), value=e))
                    if isinstance(s, ast.Return):
                        out.append(ast.Return(value=ast.Name(id=acc, ctx=ast.Load())))
                    self.changes += 1
                    return [ast.fix_missing_locations(ast.copy_location(x, s)) for x in out]
        # U21b: acc += b"".join(E for v in it [if c])  ->  for v in it: [if c:] acc += E
        if isinstance(s, ast.AugAssign) and isinstance(s.op, ast.Add) and isinstance(s.target, ast.Name) and isinstance(s.value, ast.Call) \
                and isinstance(s.value.func, ast.Attribute) and s.value.func.attr == "join" and len(s.value.args) == 1 and not s.value.keywords \
                and isinstance(s.value.func.value, ast.Constant) and s.value.func.value.value in (b"", "") \
                and isinstance(s.value.args[0], (ast.GeneratorExp, ast.ListComp)) and len(s.value.args[0].generators) == 1 \
                and not s.value.args[0].generators[0].is_async and not _has(s.value, (ast.NamedExpr, ast.Await, ast.Yield, ast.YieldFrom)) \
                and not any(isinstance(n, ast.Name) and n.id == s.target.id for n in ast.walk(s.value)):
            g = s.value.args[0].generators[0]
            body = [ast.AugAssign(target=ast.Name(id=s.target.id, ctx=ast.Store()), op=ast.Add(), value=s.value.args[0].elt)]
            for c_ in reversed(g.ifs):
                body = [ast.If(test=c_, body=body, orelse=[])]
            self.changes += 1
            return [ast.fix_missing_locations(ast.copy_location(ast.For(target=g.target, iter=g.iter, body=body, orelse=[], lineno=s.lineno), s))]
        # U16: d.update({K: V for t in it [if c]})  ->  for t in it: [if c:] d[K] = V   (it is snapshotted with list() when it reads d:
        #      the comprehension is complete before update() stores anything)
        if isinstance(s, ast.Expr) and isinstance(s.value, ast.Call) and isinstance(s.value.func, ast.Attribute) and s.value.func.attr == "update" \
                and len(s.value.args) == 1 and not s.value.keywords and isinstance(s.value.args[0], ast.DictComp) \
                and len(s.value.args[0].generators) == 1 and _is_simple(s.value.func.value):
            dc = s.value.args[0]
            g = dc.generators[0]
            if not g.is_async and not _has(dc, ast.NamedExpr):
                d_ = s.value.func.value
                it = g.iter
                if ast.unparse(d_) in ast.unparse(it) and not (isinstance(it, ast.Call) and isinstance(it.func, ast.Name) and it.func.id == "list"):
                    it = ast.Call(func=ast.Name(id="list", ctx=ast.Load()), args=[it], keywords=[])
                body = [ast.Assign(targets=[ast.Subscript(value=copy.deepcopy(d_), slice=dc.key, ctx=ast.Store())], value=dc.value, lineno=s.lineno)]
                for c_ in reversed(g.ifs):
                    body = [ast.If(test=c_, body=body, orelse=[])]
                self.changes += 1
                return [ast.fix_missing_locations(ast.copy_location(ast.For(target=g.target, iter=it, body=body, orelse=[], lineno=s.lineno), s))]
        # U7 counting comprehension: x += sum(1 for v in it if c)  ->  for v in it: if c: x += 1
        if isinstance(s, ast.AugAssign) and isinstance(s.op, ast.Add) and isinstance(s.value, ast.Call) and isinstance(s.value.func, ast.Name) \
                and s.value.func.id == "sum" and len(s.value.args) == 1 and not s.value.keywords \
                and isinstance(s.value.args[0], (ast.GeneratorExp, ast.ListComp)) and len(s.value.args[0].generators) == 1 \
                and isinstance(s.value.args[0].elt, ast.Constant) and s.value.args[0].elt.value == 1:
            g = s.value.args[0].generators[0]
            if not g.is_async and not _has(s.target, ast.Call):
                inc = ast.AugAssign(target=copy.deepcopy(s.target), op=ast.Add(), value=ast.Constant(value=1))
                body = [inc]
                for c in reversed(g.ifs):
                    body = [ast.If(test=c, body=body, orelse=[])]
                loop = ast.For(target=g.target, iter=g.iter, body=body, orelse=[], lineno=s.lineno)
                self.changes += 1
                return [ast.fix_missing_locations(ast.copy_location(loop, s))]
        # U8 summing comprehension: x = c + sum(E for v in it [if g])  ->  x = c; for v in it: [if g:] x += E
        if isinstance(s, ast.Assign) and len(s.targets) == 1 and isinstance(s.targets[0], ast.Name):
            v_ = s.value
            base, call = None, None
            if isinstance(v_, ast.BinOp) and isinstance(v_.op, ast.Add) and isinstance(v_.right, ast.Call):
                base, call = v_.left, v_.right
            elif isinstance(v_, ast.Call):
                base, call = ast.Constant(value=0), v_
            if call is not None and isinstance(call.func, ast.Name) and call.func.id == "sum" and len(call.args) == 1 and not call.keywords \
                    and isinstance(call.args[0], (ast.GeneratorExp, ast.ListComp)) and len(call.args[0].generators) == 1 \
                    and not _has(base, ast.Call) and not (isinstance(call.args[0].elt, ast.Constant) and call.args[0].elt.value == 1 and False):
                g = call.args[0].generators[0]
                if not g.is_async and isinstance(g.target, (ast.Name, ast.Tuple)):
                    tgt = s.targets[0]
                    body = [ast.AugAssign(target=ast.Name(id=tgt.id, ctx=ast.Store()), op=ast.Add(), value=call.args[0].elt)]
                    for c_ in reversed(g.ifs):
                        body = [ast.If(test=c_, body=body, orelse=[])]
                    init = ast.Assign(targets=[ast.Name(id=tgt.id, ctx=ast.Store())], value=base, lineno=s.lineno)
                    loop = ast.For(target=g.target, iter=g.iter, body=body, orelse=[], lineno=s.lineno)
                    self.changes += 1
                    return [ast.fix_missing_locations(ast.copy_location(init, s)), ast.fix_missing_locations(ast.copy_location(loop, s))]
        # U9 collecting comprehension: x = [E for v in it [if g]]  ->  x = []; for v in it: [if g:] x.append(E)
        # (also `return [E for ..]` through a fresh name); only when E contains a call - a pure projection is left as a term
        comp, tgt_name, is_ret = None, None, False
        if isinstance(s, ast.Assign) and len(s.targets) == 1 and isinstance(s.targets[0], ast.Name) and isinstance(s.value, ast.ListComp):
            comp, tgt_name = s.value, s.targets[0].id
        elif isinstance(s, ast.Return) and isinstance(s.value, ast.ListComp):
            comp, tgt_name, is_ret = s.value, "__collected", True
        if comp is not None and len(comp.generators) == 1 and not comp.generators[0].is_async and _has(comp.elt, ast.Call) \
                and isinstance(comp.generators[0].target, (ast.Name, ast.Tuple)) \
                and not any(isinstance(n, ast.Name) and n.id == tgt_name for n in ast.walk(comp)):
            g = comp.generators[0]
            app = ast.Expr(value=ast.Call(func=ast.Attribute(value=ast.Name(id=tgt_name, ctx=ast.Load()), attr="append", ctx=ast.Load()),
                                          args=[comp.elt], keywords=[]))
            body = [app]
            for c_ in reversed(g.ifs):
                body = [ast.If(test=c_, body=body, orelse=[])]
            init = ast.Assign(targets=[ast.Name(id=tgt_name, ctx=ast.Store())], value=ast.List(elts=[], ctx=ast.Load()), lineno=s.lineno)
            loop = ast.For(target=g.target, iter=g.iter, body=body, orelse=[], lineno=s.lineno)
            out = [init, loop]
            if is_ret:
                out.append(ast.Return(value=ast.Name(id=tgt_name, ctx=ast.Load())))
            self.changes += 1
            return [ast.fix_missing_locations(ast.copy_location(x, s)) for x in out]
        # U10 first match in a literal table: x = next((E for a[, b] in ((..), ..) if C), D)  ->  if C1: x = E1 elif ... else: x = D
        if isinstance(s, ast.Assign) and len(s.targets) == 1 and isinstance(s.targets[0], ast.Name) and isinstance(s.value, ast.Call) \
                and isinstance(s.value.func, ast.Name) and s.value.func.id == "next" and len(s.value.args) == 2 and not s.value.keywords \
                and isinstance(s.value.args[0], ast.GeneratorExp) and len(s.value.args[0].generators) == 1:
            ge = s.value.args[0]
            g = ge.generators[0]
            if not g.is_async and isinstance(g.iter, (ast.Tuple, ast.List)) and 1 <= len(g.iter.elts) <= 10 and len(g.ifs) >= 1:
                names = [g.target.id] if isinstance(g.target, ast.Name) else \
                    [t.id for t in g.target.elts] if isinstance(g.target, ast.Tuple) and all(isinstance(t, ast.Name) for t in g.target.elts) else None
                rows = []
                for e in g.iter.elts:
                    vals = [e] if isinstance(g.target, ast.Name) else list(e.elts) if isinstance(e, ast.Tuple) else None
                    if names is None or vals is None or len(vals) != len(names) or not all(_simple_val(v) for v in vals):
                        rows = None
                        break
                    rows.append(vals)
                if rows:
                    def inst(expr, vals):
                        x = copy.deepcopy(expr)
                        for nm, v in zip(names, vals):
                            x = _Rename(nm, v).visit(x)
                        return x
                    chain = [ast.Assign(targets=[copy.deepcopy(s.targets[0])], value=s.value.args[1], lineno=s.lineno)]
                    for vals in reversed(rows):
                        tests = [inst(c_, vals) for c_ in g.ifs]
                        test = tests[0] if len(tests) == 1 else ast.BoolOp(op=ast.And(), values=tests)
                        chain = [ast.If(test=test, body=[ast.Assign(targets=[copy.deepcopy(s.targets[0])], value=inst(ge.elt, vals), lineno=s.lineno)],
                                        orelse=chain)]
                    self.changes += 1
                    return [ast.fix_missing_locations(ast.copy_location(chain[0], s))]
        # U12 first candidate of an unbounded count: x = next(E for v in itertools.count(s) if C)  (no default)
        #       -> v' = s; while not C': v' += 1; <walrus names of C bound to their values>; x = E
        #     (C' is C with every `(n := e)` replaced by the pure e)
        if isinstance(s, ast.Assign) and len(s.targets) == 1 and isinstance(s.targets[0], ast.Name) and isinstance(s.value, ast.Call) \
                and isinstance(s.value.func, ast.Name) and s.value.func.id == "next" and len(s.value.args) == 1 and not s.value.keywords \
                and isinstance(s.value.args[0], ast.GeneratorExp) and len(s.value.args[0].generators) == 1:
            ge = s.value.args[0]
            g = ge.generators[0]
            it = g.iter
            if not g.is_async and isinstance(g.target, ast.Name) and isinstance(it, ast.Call) and not it.keywords and len(it.args) <= 1 \
                    and ast.unparse(it.func) in ("itertools.count", "count") and len(g.ifs) >= 1 \
                    and (not it.args or not _has(it.args[0], ast.Call)):
                from .desugar import is_pure
                v = g.target.id
                v2 = f"{v}__g"
                start = it.args[0] if it.args else ast.Constant(value=0)
                cond = g.ifs[0] if len(g.ifs) == 1 else ast.BoolOp(op=ast.And(), values=list(g.ifs))
                ws = [n for n in ast.walk(cond) if isinstance(n, ast.NamedExpr)]
                if all(isinstance(w.target, ast.Name) and is_pure(w.value) for w in ws) and not _has(ge.elt, ast.NamedExpr):
                    class W(ast.NodeTransformer):
                        def visit_NamedExpr(self, n):
                            return self.visit(n.value)
                    ren = lambda e: _Rename(v, ast.Name(id=v2, ctx=ast.Load())).visit(copy.deepcopy(e))
                    pure_cond = ren(W().visit(copy.deepcopy(cond)))
                    if is_pure(pure_cond) or not _has(pure_cond, (ast.Await, ast.Yield, ast.YieldFrom, ast.Lambda)):
                        test = negate(pure_cond)
                        out = [ast.Assign(targets=[ast.Name(id=v2, ctx=ast.Store())], value=start, lineno=s.lineno),
                               ast.While(test=test, body=[ast.AugAssign(target=ast.Name(id=v2, ctx=ast.Store()), op=ast.Add(),
                                                                          value=ast.Constant(value=1))], orelse=[])]
                        for w in ws:
                            out.append(ast.Assign(targets=[ast.Name(id=w.target.id, ctx=ast.Store())], value=ren(W().visit(copy.deepcopy(w.value))),
                                                  lineno=s.lineno))
                        out.append(ast.Assign(targets=[copy.deepcopy(s.targets[0])], value=ren(W().visit(copy.deepcopy(ge.elt))), lineno=s.lineno))
                        self.changes += 1
                        return [ast.fix_missing_locations(ast.copy_location(x, s)) for x in out]
        # U26: `for _ in itertools.count(..)` with the counter unused -> `while True` (the endless loop it is)
        if isinstance(s, ast.For) and isinstance(s.iter, ast.Call) and not s.orelse and isinstance(s.target, ast.Name) \
                and not any(isinstance(n, ast.Name) and n.id == s.target.id for b in s.body for n in ast.walk(b)):
            fname = ast.unparse(s.iter.func)
            is_count = fname == "itertools.count"
            if not is_count and isinstance(s.iter.func, ast.Name) and getattr(self, "mod", None) is not None and _REPO[0] is not None:
                r_ = _REPO[0].resolve(self.mod, s.iter.func.id)
                is_count = r_ is not None and r_.kind == "ext" and (r_.mod, r_.node) == ("itertools", "count")
            fn_ = getattr(self, "fn", None)
            used_after = fn_ is None or sum(1 for n in ast.walk(fn_) if isinstance(n, ast.Name) and n.id == s.target.id) > 1
            if is_count and not used_after and not any(_has([a_], ast.Call) for a_ in s.iter.args):
                self.changes += 1
                return self.block([ast.fix_missing_locations(ast.copy_location(
                    ast.While(test=ast.Constant(value=True), body=s.body, orelse=[]), s))])
        # W2b: `for u in [E for t in IT if C]: BODY` with E the bare target(s) and C over the targets and names BODY does not bind
        #      -> `for t in list(IT): if C: BODY[u := E]`
        if isinstance(s, ast.For) and isinstance(s.iter, ast.ListComp) and len(s.iter.generators) == 1 and not s.orelse:
            lc = s.iter
            g = lc.generators[0]
            tnames = [n.id for n in ast.walk(g.target) if isinstance(n, ast.Name)]
            elt_ok = (isinstance(lc.elt, ast.Name) and lc.elt.id in tnames and isinstance(s.target, ast.Name)) or \
                (ast.unparse(lc.elt) == ast.unparse(g.target) and ast.unparse(s.target) == ast.unparse(g.target))
            bound_in_body = {n.id for x in s.body for n in ast.walk(x) if isinstance(n, ast.Name) and isinstance(n.ctx, ast.Store)}
            cond_names = {n.id for c in g.ifs for n in ast.walk(c) if isinstance(n, ast.Name)}
            other_tnames = [t_ for t_ in tnames if t_ != getattr(lc.elt, "id", None)]
            if elt_ok and not g.is_async and not any(_has(c, (ast.Call, ast.NamedExpr)) for c in g.ifs) \
                    and not ((cond_names - set(tnames)) & bound_in_body) and not (set(tnames) & bound_in_body) \
                    and not any(isinstance(n, ast.Name) and n.id in other_tnames for x in s.body for n in ast.walk(x)):
                body = s.body
                if isinstance(s.target, ast.Name) and isinstance(lc.elt, ast.Name) and s.target.id != lc.elt.id:
                    body = [_RenameAll(s.target.id, lc.elt.id).visit(x) for x in body]
                for c in reversed(g.ifs):
                    body = [ast.If(test=c, body=body, orelse=[])]
                it = g.iter
                if not (isinstance(it, ast.Call) and isinstance(it.func, ast.Name) and it.func.id == "list"):
                    it = ast.Call(func=ast.Name(id="list", ctx=ast.Load()), args=[it], keywords=[])
                self.changes += 1
                return self.block([ast.fix_missing_locations(ast.copy_location(ast.For(target=g.target, iter=it, body=body, orelse=[], lineno=s.lineno), s))])
        # U22: `for k in {..literal..}` / `.keys()` / `.values()` / `.items()` of a dict literal with literal keys -> the tuple it walks
        if isinstance(s, ast.For):
            it_ = s.iter
            which = "keys"
            if isinstance(it_, ast.Call) and isinstance(it_.func, ast.Attribute) and it_.func.attr in ("keys", "values", "items") \
                    and not it_.args and not it_.keywords:
                which, it_ = it_.func.attr, it_.func.value
            if isinstance(it_, ast.Dict) and it_.keys and all(isinstance(k, ast.Constant) for k in it_.keys) \
                    and len({repr(k.value) for k in it_.keys}) == len(it_.keys) and len(it_.keys) <= 12:
                if which == "keys":
                    elts = list(it_.keys)
                elif which == "values":
                    elts = list(it_.values)
                else:
                    elts = [ast.Tuple(elts=[k, v], ctx=ast.Load()) for k, v in zip(it_.keys, it_.values)]
                if which == "keys" or all(_simple_val(v) for v in it_.values):
                    s.iter = ast.fix_missing_locations(ast.copy_location(ast.Tuple(elts=elts, ctx=ast.Load()), s.iter))
                    self.changes += 1
        # U11 first match over a literal table, statement form:
        #   for a[, b] in ((..), ..): if C: B; break  [else: E]   ->   if C1: B1 elif C2: B2 ... [else: E]
        if isinstance(s, ast.For) and isinstance(s.iter, (ast.Tuple, ast.List)) and 1 <= len(s.iter.elts) <= 10 and len(s.body) == 1 \
                and isinstance(s.body[0], ast.If) and not s.body[0].orelse and s.body[0].body and isinstance(s.body[0].body[-1], ast.Break) \
                and not _has(s.body[0].body[:-1], (ast.Break, ast.Continue)):
            names = [s.target.id] if isinstance(s.target, ast.Name) else \
                [t.id for t in s.target.elts] if isinstance(s.target, ast.Tuple) and all(isinstance(t, ast.Name) for t in s.target.elts) else None
            rows = []
            for e in s.iter.elts:
                vals = [e] if isinstance(s.target, ast.Name) else list(e.elts) if isinstance(e, ast.Tuple) else None
                if names is None or vals is None or len(vals) != len(names) or not all(_simple_val(v) for v in vals):
                    rows = None
                    break
                rows.append(vals)
            inner = s.body[0]
            stored = {x.id for b in inner.body for x in ast.walk(b) if isinstance(x, ast.Name) and isinstance(x.ctx, ast.Store)}
            if rows and names and not (stored & set(names)):
                def inst(node, vals):
                    x = copy.deepcopy(node)
                    for nm, v in zip(names, vals):
                        x = _Rename(nm, v).visit(x)
                    return x
                chain = list(s.orelse)
                for vals in reversed(rows):
                    body = [inst(b, vals) for b in inner.body[:-1]] or [ast.Pass()]
                    chain = [ast.If(test=inst(inner.test, vals), body=body, orelse=chain)]
                self.changes += 1
                return self.block([ast.fix_missing_locations(ast.copy_location(chain[0], s))])
        # U25: in the body of a loop over a literal table `if C: continue` followed by REST is `if not C: REST` (so that the body can
        # be unrolled: a `continue` has no meaning outside its loop)
        if isinstance(s, ast.For) and isinstance(s.iter, (ast.Tuple, ast.List)) and _has(s.body, ast.Continue):
            def no_continue(stmts):
                for i, st in enumerate(stmts):
                    if isinstance(st, ast.If) and not st.orelse and len(st.body) == 1 and isinstance(st.body[0], ast.Continue):
                        rest = no_continue(stmts[i + 1:])
                        if rest is None:
                            return None
                        return stmts[:i] + ([ast.copy_location(ast.If(test=negate(st.test), body=rest, orelse=[]), st)] if rest else [])
                    if isinstance(st, ast.Continue) and i == len(stmts) - 1:
                        return stmts[:i]
                    if _has([st], ast.Continue):
                        own = [n for n in ast.walk(st) if isinstance(n, ast.Continue)]
                        inner_loops = [n for n in ast.walk(st) if isinstance(n, (ast.For, ast.While))]
                        if not all(any(c is x for lp in inner_loops for x in ast.walk(lp)) for c in own):
                            return None
                return stmts
            nb = no_continue(list(s.body))
            if nb is not None and not any(isinstance(n, ast.Continue) for b in nb for n in ast.walk(b)
                                          if not any(isinstance(lp, (ast.For, ast.While)) and any(n is x for x in ast.walk(lp)) for lp in ast.walk(b) if lp is not b or True) or False):
                s.body = nb or [ast.copy_location(ast.Pass(), s)]
                ast.fix_missing_locations(s)
                self.changes += 1
        # U1b unroll with a tuple target over a literal table of rows
        if isinstance(s, ast.For) and isinstance(s.target, ast.Tuple) and all(isinstance(t, ast.Name) for t in s.target.elts) and not s.orelse \
                and isinstance(s.iter, (ast.Tuple, ast.List)) and 1 <= len(s.iter.elts) <= 8 \
                and all(isinstance(e, ast.Tuple) and len(e.elts) == len(s.target.elts) and all(_simple_val(v) for v in e.elts) for e in s.iter.elts) \
                and not _has(s.body, (ast.Break, ast.Continue)):
            names = [t.id for t in s.target.elts]
            if not any(isinstance(x, ast.Name) and x.id in names and isinstance(x.ctx, ast.Store) for b in s.body for x in ast.walk(b)) \
                    and all(_unroll_sound(nm, row.elts[j], s.body, k) for k, row in enumerate(s.iter.elts) for j, nm in enumerate(names)):
                out = []
                for e in s.iter.elts:
                    for b in s.body:
                        nb = copy.deepcopy(b)
                        for nm, v in zip(names, e.elts):
                            nb = _Rename(nm, v).visit(nb)
                        out.append(ast.fix_missing_locations(nb))
                self.changes += 1
                return self.block(out)
        # U1 unroll
        if isinstance(s, ast.For) and isinstance(s.target, ast.Name) and not s.orelse and isinstance(s.iter, (ast.Tuple, ast.List)) \
                and 1 <= len(s.iter.elts) <= 8 and all(_simple_val(e) for e in s.iter.elts) \
                and not _has(s.body, (ast.Break, ast.Continue)) \
                and not any(isinstance(x, ast.Name) and x.id == s.target.id and isinstance(x.ctx, ast.Store) for b in s.body for x in ast.walk(b)) \
                and all(_unroll_sound(s.target.id, e, s.body, k) for k, e in enumerate(s.iter.elts)):
            out = []
            for e in s.iter.elts:
                for b in s.body:
                    nb = _Rename(s.target.id, e).visit(copy.deepcopy(b))
                    out.append(ast.fix_missing_locations(nb))
            self.changes += 1
            # the unrolled copies may expose getattr/setattr with literal names
            return self.block(out)
        return [s]


def _unroll_sound(var, elt, body, k):
    """unrolling `for var in (e0, .., en)` reads element k where the k-th copy of the body reads `var`, not when the tuple is built:
    the same value only if neither the earlier copies nor the body before that read can change what the element evaluates to"""
    if isinstance(elt, ast.Constant):
        return True
    stored = {x.id for b in body for x in ast.walk(b) if isinstance(x, ast.Name) and isinstance(x.ctx, (ast.Store, ast.Del))}
    if any(isinstance(x, ast.Name) and x.id in stored for x in ast.walk(elt)):
        return False                       # the body re-binds a name the element mentions
    if isinstance(elt, ast.Name):
        return True
    return deferrable(var, elt, list(body) * (k + 1), None, _MOD[0])


def _bool_locals(fn):
    """locals that are only ever bound to True / False / comparisons (and are not parameters)"""
    vals = {}
    params = {a.arg for a in fn.args.posonlyargs + fn.args.args + fn.args.kwonlyargs}
    for n in ast.walk(fn):
        if isinstance(n, ast.Assign):
            for t in n.targets:
                if isinstance(t, ast.Name):
                    vals.setdefault(t.id, []).append(n.value)
                else:
                    for x in ast.walk(t):
                        if isinstance(x, ast.Name) and isinstance(x.ctx, ast.Store):
                            vals.setdefault(x.id, []).append(None)
        elif isinstance(n, ast.Name) and isinstance(n.ctx, (ast.Store, ast.Del)):
            vals.setdefault(n.id, [])
        elif isinstance(n, (ast.AugAssign, ast.AnnAssign, ast.NamedExpr)) and isinstance(n.target, ast.Name):
            vals.setdefault(n.target.id, []).append(None)
        elif isinstance(n, (ast.For, ast.comprehension)):
            for x in ast.walk(n.target):
                if isinstance(x, ast.Name):
                    vals.setdefault(x.id, []).append(None)
        elif isinstance(n, (ast.withitem,)) and n.optional_vars is not None:
            for x in ast.walk(n.optional_vars):
                if isinstance(x, ast.Name):
                    vals.setdefault(x.id, []).append(None)
        elif isinstance(n, ast.ExceptHandler) and n.name:
            vals.setdefault(n.name, []).append(None)
    ok = lambda v: v is not None and (isinstance(v, ast.Compare) or (isinstance(v, ast.Constant) and isinstance(v.value, bool))
                                      or (isinstance(v, ast.UnaryOp) and isinstance(v.op, ast.Not)))
    return {k for k, vs in vals.items() if vs and k not in params and all(ok(v) for v in vs)}


def spelling(fn, cls=None, mod=None):
    sp = Spelling()
    sp.mod = mod if mod is not None else (cls.mod if cls is not None and hasattr(cls, "mod") else None)
    if sp.mod is not None:
        _MOD[0] = sp.mod
    sp.bool_locals = _bool_locals(fn)
    sp.fn = fn
    if cls is not None:
        ms = set()
        for k in cls.mro():
            if hasattr(k, "methods"):
                ms |= {m for m in k.methods if m not in k.props}
        # an attribute of that name assigned anywhere in the class hierarchy shadows the method: not foldable
        for k in cls.mro():
            if hasattr(k, "methods"):
                for f_ in k.methods.values():
                    for x in ast.walk(f_):
                        if isinstance(x, ast.Attribute) and isinstance(x.ctx, ast.Store) and isinstance(x.value, ast.Name) and x.value.id == "self":
                            ms.discard(x.attr)
        sp.methods = ms
    fn.body = sp.block(fn.body)
    return sp.changes


def propagate_single_use(fn, known_locals=None):
    """P6: `x = E` immediately followed by `if x:` / `if not x:` where x has no other use -> `if E:`.
    `known_locals`: the local names of this function in the confirmed tree (None for a new function)."""
    n_sub = 0
    loads, stores = {}, {}
    for n in ast.walk(fn):
        if isinstance(n, ast.Name):
            d = loads if isinstance(n.ctx, ast.Load) else stores
            d[n.id] = d.get(n.id, 0) + 1
    params = {a.arg for a in fn.args.posonlyargs + fn.args.args + fn.args.kwonlyargs}

    def scan(stmts):
        nonlocal n_sub
        i = 0
        while i < len(stmts) - 1:
            s, nxt = stmts[i], stmts[i + 1]
            if isinstance(s, ast.Assign) and len(s.targets) == 1 and isinstance(s.targets[0], ast.Name) and isinstance(nxt, ast.If):
                name = s.targets[0].id
                t = nxt.test
                inner = t.operand if isinstance(t, ast.UnaryOp) and isinstance(t.op, ast.Not) else t
                if isinstance(inner, ast.Name) and inner.id == name and loads.get(name) == 1 and stores.get(name) == 1 \
                        and name not in params and not isinstance(s.value, (ast.Yield, ast.YieldFrom, ast.Await)):
                    if inner is t:
                        nxt.test = s.value
                    else:
                        t.operand = s.value
                    del stmts[i]
                    n_sub += 1
                    continue
            # P6c: `x = E` directly followed by a simple statement that reads x exactly once (its only read in the function), with
            # nothing but pure expressions evaluated before that read -> E moves to the place of the read
            if isinstance(s, ast.Assign) and len(s.targets) == 1 and isinstance(s.targets[0], ast.Name) \
                    and isinstance(nxt, (ast.Assign, ast.AugAssign, ast.Return, ast.Expr)) and getattr(nxt, "value", None) is not None \
                    and not isinstance(s.value, (ast.Yield, ast.YieldFrom, ast.Await, ast.Lambda, ast.Dict, ast.List, ast.ListComp, ast.DictComp,
                                                 ast.SetComp, ast.GeneratorExp, ast.Constant, ast.Tuple)):
                name = s.targets[0].id
                if loads.get(name) == 1 and stores.get(name) == 1 and name not in params and not name.startswith("__inl"):
                    from .desugar import Desugar as _Dz, is_pure as _pz
                    occ = [n for n in ast.walk(nxt.value) if isinstance(n, ast.Name) and n.id == name and isinstance(n.ctx, ast.Load)]
                    in_scope = not any(isinstance(sc, (ast.Lambda, ast.ListComp, ast.SetComp, ast.DictComp, ast.GeneratorExp)) and
                                       any(o is x for o in occ for x in ast.walk(sc)) for sc in ast.walk(nxt.value))
                    # (only the plain hand-over `y = x` - a chain of temporaries; named intermediate values are kept, the rules of
                    # the confirmed tree know them by their roles)
                    # A local the confirmed tree does not have is a NEW named temporary: it is transparent wherever it is read.
                    fresh = known_locals is not None and name not in known_locals
                    if len(occ) == 1 and in_scope and ((occ[0] is nxt.value and isinstance(nxt, ast.Assign)) or fresh):
                        before = _Dz._before(nxt.value, occ[0])
                        # (the targets of a plain assignment are evaluated after its value: they need not be pure)
                        tgt_pure = isinstance(nxt, ast.Assign) or all(_is_simple(t) for t in ([nxt.target] if isinstance(nxt, ast.AugAssign) else []))
                        if before is not None and all(_pz(b_) for b_ in before) and tgt_pure and not isinstance(nxt, ast.AugAssign):
                            _Dz._replace(nxt, "value", occ[0], s.value)
                            ast.fix_missing_locations(nxt)
                            del stmts[i]
                            n_sub += 1
                            continue
            # P6b: `d = {literal keys: ..}` directly followed by a simple statement whose only use of d is `f(.., **d)` with a
            # simple callee and simple positional arguments -> the literal moves into the call (U15 then names the keywords)
            if isinstance(s, ast.Assign) and len(s.targets) == 1 and isinstance(s.targets[0], ast.Name) and isinstance(s.value, ast.Dict) \
                    and s.value.keys and all(isinstance(k, ast.Constant) and isinstance(k.value, str) for k in s.value.keys) \
                    and isinstance(nxt, (ast.Return, ast.Expr, ast.Assign)):
                name = s.targets[0].id
                if loads.get(name) == 1 and stores.get(name) == 1 and name not in params:
                    hit = [c for c in ast.walk(nxt) if isinstance(c, ast.Call) and any(
                        k.arg is None and isinstance(k.value, ast.Name) and k.value.id == name for k in c.keywords)]
                    if len(hit) == 1 and _is_simple(hit[0].func) and all(_is_simple(a) for a in hit[0].args) \
                            and all((k.arg is None and isinstance(k.value, ast.Name) and k.value.id == name) or
                                    (k.arg is not None and _is_simple(k.value)) for k in hit[0].keywords) \
                            and (getattr(nxt, "value", None) is hit[0]):
                        for k in hit[0].keywords:
                            if k.arg is None:
                                k.value = s.value
                        del stmts[i]
                        n_sub += 1
                        continue
            i += 1
        for s in stmts:
            for fld in ("body", "orelse", "finalbody"):
                b = getattr(s, fld, None)
                if isinstance(b, list) and not isinstance(s, (ast.FunctionDef, ast.AsyncFunctionDef, ast.ClassDef)):
                    scan(b)
            if isinstance(s, ast.Try):
                for h in s.handlers:
                    scan(h.body)
    scan(fn.body)
    return n_sub
