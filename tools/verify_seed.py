#!/usr/bin/env python3
"""Confirm one seeded change in a scratch worktree and record it under /verif/seeded/<id>/.

usage: verify_seed.py <seed id> <property> <patch.diff> <demo.py> [--notes notes.md] [--skip-baseline]
Steps (all in a fresh `git worktree` of /repo HEAD under $TMPDIR, removed afterwards):
  1. demo on the clean tree            -> must exit 0
  2. apply patch, demo                 -> must exit != 0
  3. baseline suite with the patch     -> all stable-pass tests still pass
  4. every property check (--repo wt)  -> which fire
"""
import argparse
import json
import os
import shutil
import subprocess
import sys
import tempfile
import time

ALL = [f"C{i:02d}" for i in range(1, 21)]


def sh(cmd, cwd=None, timeout=1800):
    return subprocess.run(cmd, cwd=cwd, capture_output=True, text=True, timeout=timeout)


def main():
    ap = argparse.ArgumentParser()
    ap.add_argument("seed_id")
    ap.add_argument("prop")
    ap.add_argument("patch")
    ap.add_argument("demo")
    ap.add_argument("--notes")
    ap.add_argument("--skip-baseline", action="store_true")
    a = ap.parse_args()
    wt = tempfile.mkdtemp(prefix="seedwt_")
    os.rmdir(wt)
    ev = tempfile.mkdtemp(prefix="seedev_")
    meta = {"seed": a.seed_id, "property": a.prop, "verified_at": time.strftime("%Y-%m-%d %H:%M:%S"), "ran": []}
    ok = True
    try:
        sh(["git", "-C", "/repo", "worktree", "add", "-q", "--detach", wt, "HEAD"])
        meta["repo_head"] = sh(["git", "-C", "/repo", "rev-parse", "--short", "HEAD"]).stdout.strip()
        os.makedirs(os.path.join(wt, "_seed"))
        demo_name = os.path.basename(a.demo)
        shutil.copy(a.demo, os.path.join(wt, "_seed", demo_name))
        d0 = sh(["/venv/bin/python", f"_seed/{demo_name}"], cwd=wt, timeout=600)
        meta["ran"].append({"cmd": f"/venv/bin/python _seed/{demo_name}  (clean tree)", "exit": d0.returncode})
        r = sh(["git", "-C", wt, "apply", "--whitespace=nowarn", os.path.abspath(a.patch)])
        if r.returncode != 0:
            print("patch does not apply:", r.stderr)
            return 2
        d1 = sh(["/venv/bin/python", f"_seed/{demo_name}"], cwd=wt, timeout=600)
        meta["ran"].append({"cmd": f"/venv/bin/python _seed/{demo_name}  (patched tree)", "exit": d1.returncode,
                            "tail": (d1.stdout + d1.stderr)[-300:]})
        meta["demo_passes_clean"] = d0.returncode == 0
        meta["demo_fails_patched"] = d1.returncode != 0
        ok = ok and meta["demo_passes_clean"] and meta["demo_fails_patched"]
        if not a.skip_baseline:
            b = sh(["python3", "/verif/tools/baseline.py", wt], timeout=3000)
            meta["ran"].append({"cmd": "python3 /verif/tools/baseline.py <patched worktree>", "exit": b.returncode,
                                "tail": b.stdout.strip().splitlines()[-1:]})
            meta["baseline_green"] = b.returncode == 0
            ok = ok and meta["baseline_green"]
        fired = {}
        for p in ALL:
            c = sh(["/venv/bin/python", "/verif/bsa/check.py", "--property", p, "--repo", wt, "--evidence-dir", ev])
            if c.returncode != 0:
                lines = [l.strip() for l in c.stdout.splitlines() if l.strip().startswith(("violated:", "ANALYSIS-ERROR"))]
                fired[p] = {"exit": c.returncode, "first": lines[:2]}
        meta["checks_fired"] = fired
        meta["caught_by_target_check"] = fired.get(a.prop, {}).get("exit") == 1
        meta["caught_by"] = sorted(p for p, v in fired.items() if v["exit"] == 1)
        meta["analysis_error_in"] = sorted(p for p, v in fired.items() if v["exit"] == 2)
    finally:
        sh(["git", "-C", "/repo", "worktree", "remove", "--force", wt])
        shutil.rmtree(wt, ignore_errors=True)
        shutil.rmtree(ev, ignore_errors=True)
    meta["confirmed"] = ok
    out = os.path.join("/verif/seeded", a.seed_id)
    if ok:
        os.makedirs(out, exist_ok=True)
        shutil.copy(a.patch, os.path.join(out, "patch.diff"))
        shutil.copy(a.demo, os.path.join(out, "demo.py"))
        if a.notes and os.path.exists(a.notes):
            meta["needs_to_manifest"] = open(a.notes).read()[:2000]
        json.dump(meta, open(os.path.join(out, "meta.json"), "w"), indent=1)
    print(json.dumps({k: meta.get(k) for k in ("seed", "confirmed", "demo_passes_clean", "demo_fails_patched", "baseline_green",
                                                "caught_by", "analysis_error_in")}))
    return 0 if ok else 1


if __name__ == "__main__":
    sys.exit(main())
