#!/usr/bin/env python3
"""Debug: print what the normaliser did on a tree, and the normalised source of functions.
usage: show_norm.py <repo root> [function qual ...]"""
import ast, sys
sys.path.insert(0, "/verif")
from bsa.loader import Repo
r = Repo(sys.argv[1])
nz = r.normalizer
print("inlined:", len(nz.log))
for x in nz.log: print("  ", x)
print("bailed:", nz.bailed)
print("consts:", sorted(set(nz.const_subst)))
for q in sys.argv[2:]:
    fi = r.func(q)
    print("=" * 20, q)
    print(ast.unparse(fi.node) if fi else "??")
