#!/usr/bin/env python3
"""Debug: print the term-interpreter paths of a function (or of its n-th loop body).
usage: show_sym.py <repo root> <function qual> [--loop N] [--calls]"""
import ast, sys
sys.path.insert(0, "/verif")
from bsa.loader import Repo
from bsa import sym
from bsa.astutil import strip_doc, walk_no_nested
r = Repo(sys.argv[1])
fi = r.func(sys.argv[2])
args = sys.argv[3:]
fn = fi.node
ps = [a.arg for a in fn.args.args]
env = {a: sym.S(a) for a in ps}
it = sym.Interp(fold=lambda e: r.fold(fi.mod, e), log_calls="--calls" in args, limit=50000)
if "--loop" in args:
    n = int(args[args.index("--loop") + 1])
    loops = [x for x in walk_no_nested(fn) if isinstance(x, (ast.For, ast.While))]
    paths = it.loop_body(loops[n], {}, sym.PathState(env, [], []))
else:
    paths = it.run(strip_doc(fn.body), sym.PathState(env, [], []))
for i, p in enumerate(paths):
    print(f"--- path {i}: term={p.term} value={sym.show(p.value) if p.term in ('return','raise') else ''}")
    for c, tv in p.conds:
        print("    cond", tv, sym.show(c))
    for e in p.effects:
        print("    eff ", e[0], " | ".join(sym.show(x) if isinstance(x, tuple) or x is None or isinstance(x, (int, str, bytes)) else type(x).__name__ for x in e[1:-1]))
