NA = {}
CLAIMS["C10"] = ("static table analysis of all AVP class definitions + CFG must-define / abstract byte-width dataflow of the type constructors",
 "Every definition of the AVP dictionary (207) is folded and cross-checked: unique (vendor, code), constructor protocol with "
 "V flag <=> Vendor-ID <=> class vendor, declared type initialiser on all constructor paths, enumerator tables, grouped member "
 "tables, must-define and width of the data field on every CFG path of each type constructor and each parser_data "
 "implementation, and agreement with the published dictionary. Necessary conditions of the property over all classes at once; "
 "value-level domain checks inside an accepted Python type are not decided.", "DESIGN.md section 4, C10")
