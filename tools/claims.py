NA = {}
CLAIMS["C10"] = ("static table analysis of all AVP class definitions + CFG must-define / abstract byte-width dataflow of the type constructors",
 "Every definition of the AVP dictionary (207) is folded and cross-checked: unique (vendor, code), constructor protocol with "
 "V flag <=> Vendor-ID <=> class vendor, declared type initialiser on all constructor paths, enumerator tables, grouped member "
 "tables, must-define and width of the data field on every CFG path of each type constructor and each parser_data "
 "implementation, and agreement with the published dictionary. Necessary conditions of the property over all classes at once; "
 "value-level domain checks inside an accepted Python type are not decided.", "DESIGN.md section 4, C10")
CLAIMS["C09"] = ("static table analysis of all 50 typed command classes + decision-table enumeration of DiameterMessage._load and set_flag_by_app_id",
 "All DiameterRequest/DiameterAnswer subclasses under bromelia/lib are folded and cross-checked (kind, 3-byte command code, 4-byte "
 "application id, request/answer agreement, mandatory keys are parameters, misspelt keys, locals() handed to _load unchanged, "
 "defaults accepted by the AVP type they feed, frozen published argument->AVP-class pairs); _load's branch structure is enumerated "
 "over the 8 combinations of (mandatory, optional, None) and the flag rule over (default app, kind). Necessary conditions over all "
 "classes; per-value construction and the round trip are not decided.", "DESIGN.md section 4, C09")
CLAIMS["C17"] = ("interval-set normalisation of the predicates' comparison atoms (abstract interpretation over integer intervals)",
 "Each integer family predicate is reduced to a union of integer intervals over [0,2^32) and compared with [1000k+1,1000k+999] "
 "(complete for every 32-bit code, not sampled); the five sets are pairwise disjoint; each answer-object predicate is a delegation to "
 "its verified integer predicate on the big-endian Result-Code, an interval test, or is refuted (byte-mask idiom) with a computed "
 "counter-example. This decides the property for the predicates' current source up to the 4-octet width of Result-Code (C10).",
 "DESIGN.md section 4, C17")
CLAIMS["C18"] = ("CFG return analysis (no implicit None) + structural encoder/decoder symmetry rules + sibling comparison",
 "No path of either TBCD function falls off the end; both loops step by the pair width, swap a full pair, and agree on filler constant "
 "and positions; MsisdnAVP/StnSrAVP.encode are identical and feed bytes.fromhex(encode_to_tbcd(.)) to the type initialiser. Necessary "
 "conditions; the round trip as an equation over all strings is not decided.", "DESIGN.md section 4, C18")
CLAIMS["C19"] = ("def-use flow table of the 12 configuration keys, dominator checks of each validation, reaching-definition (loop-carried) analysis on the CFG",
 "Every key flows unchanged into exactly its field of the Connection description; each validation dominates its store and raises the "
 "library's configuration error; no use-after-rebind; every per-entry value of the YAML converter is defined inside its iteration; "
 "Config defaults only TRANSPORT_TYPE. Necessary conditions; odd-but-parseable values are not decided.", "DESIGN.md section 4, C19")
CLAIMS["C20"] = ("interval partition of the bit index over the if/elif chains + byte-index/mask/sibling rules; folded family and epoch tables",
 "The branch conditions of is_bit_set/set_bit/unset_bit are normalised to interval sets and must partition [0,32) into byte-aligned "
 "groups, each touching byte 3-j with mask 2**(bit%8) and rebuilding the word with the other bytes in place; out-of-range and "
 "redundant operations are rejected first; the three siblings agree. Address family constants/offsets and the Time epoch/scale are "
 "folded. Complete over bit indices (finite abstraction); value-level behaviour of ipaddress/datetime is trusted.", "DESIGN.md section 4, C20")
CLAIMS["C01"] = ("abstract byte-width dataflow of the fixed-width setters, writer/reader layout table extraction, abstract interpretation of padding over len%4 residues, must-pass checks of the length bookkeeping",
 "The structural skeleton every serialised value passes through is decided for all paths: widths of the 11 fixed-width fields, RFC order "
 "of header/AVP concatenation and agreement with the readers' slices, vendor-field/length coupling, padding for each of the four "
 "residues (complete finite abstraction), Message Length bookkeeping in append/refresh/dump/_load, Grouped data as concatenation "
 "through append, and 3/4-octet command code / application id in all 50 typed classes. Necessary conditions; equality of the data "
 "bytes with a reference encoder for particular values is not decided.", "DESIGN.md section 4, C01")
CLAIMS["C02"] = ("def-use flow of the wire fields in DiameterAVP.load, identity-lattice path enumeration of every constructor on its bytes path, splitter shape and registry key-order table checks",
 "Every wire field not determined by the dispatch key must flow into the decoded object; all 11 type constructors and all 207 AVP "
 "constructors (incl. parser_data/encode overrides) keep a bytes argument unchanged on every path; the splitter builds and appends "
 "exactly one message per iteration from the slices named by the parsed header with loaded=True; registry writer and reader agree on "
 "[vendor][code]; every dictionary class is a direct subclass; nothing on the decode path (new helpers included) writes class-level, global or module-object state. Necessary conditions; byte equality of re-serialisation per input is "
 "not decided. The dropped wire flags are a listed known finding.", "DESIGN.md section 4, C02")
CLAIMS["C12"] = ("path enumeration of decorate_answer as decision tables over the verified family predicates, the E bit and has_avp atoms; CFG must-pass checks",
 "For every combination of the three failure-family predicates (themselves interval-verified under C17), the E bit and the presence "
 "tests, decorate_answer copies the three identifiers, copies the Session-Id only under guards and refreshes the length, sets the E flag "
 "exactly once iff a failure family holds and it is not already set, removes Result-Code iff both result AVPs are present, and never "
 "reads a dynamic *_avp attribute without a dominating has_avp on the same object. Necessary conditions of the property on all paths; "
 "values (e.g. experimental result codes) are not decided.", "DESIGN.md section 4, C12")
CLAIMS["C13"] = ("registry writer/reader table check + path enumeration of callback_route (exactly-one send), handler-coverage and field-flow checks",
 "Registration and lookup use the same [application id][command code] nesting and key sources; every normal path and the explicit "
 "BromeliaException exit of callback_route send exactly one message (the decorated handler answer or create_error_answer(request)); "
 "the handler call is wrapped by except Exception; no unguarded raising operation on handler-supplied objects precedes the send; "
 "the error answer's six fields flow from the request / local configuration with Result-Code folding to 5012. Run-time table "
 "contents and cross-process delivery are not decided.", "DESIGN.md section 4, C13")
CLAIMS["C14"] = ("path enumeration of Bromelia.send_message (call-order rule), registry key table checks, CFG must-pass of the notify/wait rendezvous",
 "On every path on which a request is published and awaited, the waiter is registered before the hand-over to the worker; insert, "
 "lookup, membership and removal key the registry by the same header field; the dispatch side replaces the waiter's message before "
 "notifying and removes after; notify() sets on every path the very event wait() blocks on, and wait() releases the notifier. the waiter inserted and awaited is a PendingAnswer constructed for that request on that path (never a pooled or shared object); an answer is dropped only after the registry reported no waiter for it. These "
 "are necessary conditions for 'always wakes / own answer'; the interleaving quantifier itself is not decided.", "DESIGN.md section 4, C14")
CLAIMS["C15"] = ("path enumeration of the draw loops (test-and-insert on every return), who-may-write/call rules, lockset dataflow on the CFG",
 "For any random source: every returned identifier passed a non-membership test in, and was inserted into, its own process-wide "
 "registry; registries are written only by the draw functions, which are called only on the no-header branch of "
 "DiameterRequest.__init__; drawn values reach the header field of the same name; test and insert execute in one region of a "
 "class-level lock. Together these imply the property for sequential and concurrent creation.", "DESIGN.md section 4, C15")
CLAIMS["C16"] = ("monotone-counter rule over the functions reachable from get_session_id (who-may-write + dominance), CFG must-increment, f-string shape",
 "The (init, id) pair changes only by a positive increment on every path reachable from the generator (any reset must be guarded by a "
 "strict increase of the time component), every generated id is formatted after an increment as identity;high;low[;optional] with "
 "the identity first, generation happens only for str input (bytes are carried unchanged, cf. C02) and on bulk update only when "
 "origin_host is given without session_id. Clock behaviour across process restarts is not decided.", "DESIGN.md section 4, C16")
CLAIMS["C06"] = ("bounded path enumeration of every state's run() (event helpers inlined) with RFC 6733 section 5.6 invariants evaluated over all extracted paths; dependence and table checks",
 "The complete path table of the five implemented states (44 paths on the current tree) is extracted statically and every path is "
 "checked against the RFC rows the library implements (open only after a validated capabilities exchange, one DPR then Closing on "
 "local stop, DPA-then-Closed on DPR, Closed on peer disconnect / non-CEA, delivery only while Open and only for non-base messages); "
 "validators must compare with the configured peer identity with thresholds equal to the number of mandatory checks; the state table "
 "is exhaustive, every transition into Closed closes the transport, the watchdog depends on the configured timeout, and the six "
 "classifiers test the right R-bit polarity and command codes. Timing, sockets and the election states are not decided.",
 "DESIGN.md section 4, C06")
CLAIMS["C07"] = ("CFG must-define of both identifiers in create_answer, command/template/class table checks, state-machine path table (sent once per handler), call-path check for synchronous serialisation, who-may-write rule",
 "Every path of create_answer copies both identifiers from the same-named request fields onto the template selected by the request's "
 "command code; templates are built from answer classes of the same command code with Result-Code and local Origin-* AVPs; on every "
 "state-machine path a built answer is sent exactly once in the handler that built it, before another message is taken, and is "
 "serialised synchronously; no other code writes identifier fields. Identifier values over sequences are not decided.",
 "DESIGN.md section 4, C07")
CLAIMS["C11"] = ("effect classification of every list-mutating method + CFG must-pass pairing rules, SSA-name alias rule, equality-vs-identity rule, abstract evaluation of the length arithmetic",
 "Every method of DiameterMessage and GroupedType that mutates `_avps` pairs the mutation, on all paths, with the matching name-map "
 "update and a length/`_data` update (or a re-deriving call); both views receive the same object; no ==-based list operation is used "
 "on AVPs (DiameterAVP.__eq__ compares encodings); pop/cleanup subtract what append added; bulk data updates end with refresh(); "
 "cleanup's key filter selects every name shape append itself creates; an instance attribute the confirmed tree does not have is "
 "updated by every mutator of the state it mirrors; DiameterAVP.length never returns a stored value. "
 "Freshness of the `__N` name suffix across histories is not decided.", "DESIGN.md section 4, C11")
CLAIMS["C03"] = ("lower-bound dataflow for decoder loop progress, escape-set fixpoint over the resolved call graph with an explicit may-raise/hazard model and exception-type-aware CFG edges, lockset dataflow for acquire/release pairing on all exits",
 "Both decoder loops - and every other index-driven scan loop over a byte stream on the receive path - advance by an amount with a "
 "proven lower bound >= 1 on every path; the escape sets of DiameterHeader.load / "
 "DiameterAVP.load / DiameterMessage.load (closed over all 207 registry-dispatched constructors) contain only library error classes; "
 "the receive worker's handlers cover the decoder's escape set and no input-driven exception reaches the top of the three connection "
 "thread roots; every lock region of the code base releases its lock on every normal and exceptional exit. Necessary conditions; "
 "memory growth and liveness as a whole are not decided; the may-raise model is the trusted base.", "DESIGN.md section 4, C03")
CLAIMS["C08"] = ("interprocedural must-held lockset dataflow + blocking-primitive table (R-BLOCK), stop-flag/event pairing (R-WAKE), loop-exit and must-pass rules on the close/start paths",
 "No untimed blocking primitive is reachable while a connection-layer lock is held (guarded Queue.get idioms are verified, not "
 "assumed); every writer of a stop flag that ends an untimed Event.wait loop also sets the event on all its paths; every worker loop "
 "reads a flag the close path assigns; close() releases selector registration and socket(s) on every non-exceptional path; "
 "Diameter.start rebuilds association and state machine and resets the stop flag. Thread termination under all interleavings is not "
 "decided.", "DESIGN.md section 4, C08")
CLAIMS["C04"] = ("field-granular taint propagation from sock.recv to the decode entry with carry-over / completeness-guard rules, buffer-conservation rule, lockset dataflow on the shared buffer, must-pass exactly-once and who-may-put rules per hop",
 "Location-independent necessary structure of a fragment-tolerant receive path: a persistent buffer between recv and the decoder is "
 "partially consumed (carry-over), a comparison of buffered length with the decoded Message Length governs what is decoded, receive "
 "buffers are only appended / transferred / partially consumed, every read-modify-write of the shared buffer and its availability "
 "event holds a common lock, each hop hands a message over exactly once through a FIFO with a single producer site; on terms, the "
 "decoder gets X[:B] and the transport keeps X[B:] of the WHOLE buffered stream X with B measured on X. The "
 "segmentation x interleaving quantifier itself is not decided.", "DESIGN.md section 4, C04")
CLAIMS["C05"] = ("buffer-conservation and partial-write rules with sibling comparison, must-clear (consume-once) summaries over the call graph, dominator check of the mask downgrade, path enumeration of the send path, lockset dataflow",
 "Both _write implementations drop exactly the sent prefix; outbound buffers are only appended / transferred / trimmed; the selector "
 "mailbox must be cleared before the next select(); every downgrade to read-only is dominated by 'nothing pending'; accepted messages "
 "are put once, serialised once, never re-enqueued, and the stream reaches the transport hand-off; mask changes and queue operations "
 "hold their locks (every write of the events mask and the mode events inside the region of TcpConnection.lock; every function that attaches a stream does so under `not is_write_mode()`); no iteration both serialises and re-enqueues a message. Three genuine defects of the hand-off design are listed known findings (5 obligations). Interleavings are not "
 "decided.", "DESIGN.md section 4, C05")
