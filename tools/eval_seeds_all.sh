#!/bin/bash
# usage: eval_seeds_all.sh  -- every confirmed seed must be reported (exit 1) by the check of the property it targets
cd /verif/seeded
one() { id=$1; p=${id%%-*}; [ -f /verif/seeded/$id/patch.diff ] || exit 0; out=$(python3 /verif/tools/eval_seed.py /verif/seeded/$id/patch.diff --props $p 2>&1 | grep -E "^== |FIRED|PATCH"); if echo "$out" | grep -q "== $p exit 1"; then echo "$id caught"; else echo "$id NOT-CAUGHT $(echo $out | cut -c1-160)"; fi; }
export -f one
ls -d C*-[0-9]* | grep -v rejected | xargs -P ${JOBS:-12} -I{} bash -c "one {}"
