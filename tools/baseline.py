#!/usr/bin/env python3
"""Run the repository's baseline suite and compare with /root/.vp/BASELINE.json stable passes.
Usage: baseline.py [repo_dir]   (junit goes to a temp file that is removed)"""
import json, subprocess, sys, tempfile, os, xml.etree.ElementTree as ET
repo = sys.argv[1] if len(sys.argv) > 1 else "/repo"
base = json.load(open("/root/.vp/BASELINE.json"))
fd, junit = tempfile.mkstemp(suffix=".xml"); os.close(fd)
# tests/test_setup.py binds fixed localhost ports: run the suite in a private network namespace so that
# concurrent runs (several worktrees) cannot collide
import shutil
_ns = ["unshare", "-n", "sh", "-c", 'ip link set lo up 2>/dev/null; exec "$@"', "sh"] if shutil.which("unshare") and os.geteuid() == 0 else []
cmd = _ns + ["/venv/bin/python", "-m", "pytest", "-q", "-p", "no:cacheprovider", "--timeout=900",
       "--continue-on-collection-errors", f"--junitxml={junit}", "-x" if False else "-q"]
p = subprocess.run(cmd, cwd=repo, capture_output=True, text=True)
tail = p.stdout.strip().splitlines()[-1:] 
passed = set()
for tc in ET.parse(junit).getroot().iter("testcase"):
    if not any(c.tag in ("failure", "error", "skipped") for c in tc):
        passed.add(f"{tc.get('classname')}::{tc.get('name')}")
os.remove(junit)
stable = set(base["stable_pass"])
missing = sorted(stable - passed)
print(tail, "stable:", len(stable), "still passing:", len(stable & passed), "broken:", len(missing))
for m in missing[:20]: print("  BROKEN", m)
sys.exit(1 if missing else 0)
