#!/usr/bin/env python3
"""Run checks against every behaviour-preserving refactoring in /verif/neutral (each in its own scratch worktree).
Every check is expected to exit 0 on every one of them.
usage: eval_neutral.py [--props C01,C02] [--only C01-1,C02-3] [-v]"""
import argparse, glob, os, shutil, subprocess, sys, tempfile
from concurrent.futures import ThreadPoolExecutor

ALL = [f"C{i:02d}" for i in range(1, 21)]


def one(args):
    patch, props, verbose = args
    name = os.path.basename(patch)[:-5]
    wt = tempfile.mkdtemp(prefix="neut_")
    os.rmdir(wt)
    ev = tempfile.mkdtemp(prefix="neutev_")
    out = []
    try:
        subprocess.run(["git", "-C", "/repo", "worktree", "add", "-q", "--detach", wt, "HEAD"], check=True, capture_output=True)
        r = subprocess.run(["git", "-C", wt, "apply", "--whitespace=nowarn", patch], capture_output=True, text=True)
        if r.returncode:
            return name, [("APPLY", 3, [r.stderr.strip()[:200]])]
        for p in props:
            c = subprocess.run(["/venv/bin/python", os.environ.get("VERIF_ROOT", "/verif") + "/bsa/check.py", "--property", p, "--repo", wt, "--evidence-dir", ev],
                               capture_output=True, text=True)
            if c.returncode != 0:
                lines = [l.strip()[:360] for l in c.stdout.splitlines() if l.strip().startswith(("violated:", "ANALYSIS-ERROR"))]
                out.append((p, c.returncode, lines[:4 if verbose else 1]))
    finally:
        subprocess.run(["git", "-C", "/repo", "worktree", "remove", "--force", wt], capture_output=True)
        shutil.rmtree(wt, ignore_errors=True)
        shutil.rmtree(ev, ignore_errors=True)
    return name, out


def main():
    ap = argparse.ArgumentParser()
    ap.add_argument("--props", default=",".join(ALL))
    ap.add_argument("--only", default="")
    ap.add_argument("-v", action="store_true")
    ap.add_argument("--dir", default="/verif/neutral")
    a = ap.parse_args()
    patches = sorted(glob.glob(a.dir + "/*.diff"))
    if a.only:
        patches = [p for p in patches if os.path.basename(p)[:-5] in a.only.split(",")]
    props = a.props.split(",")
    bad = 0
    with ThreadPoolExecutor(max_workers=int(os.environ.get("JOBS", "16"))) as ex:
        for name, out in ex.map(one, [(p, props, a.v) for p in patches]):
            if out:
                bad += 1
                for p, rc, lines in out:
                    print(f"{name}: {p} exit {rc}")
                    for l in lines:
                        print("     ", l)
    print(f"neutral patches: {len(patches)}, with an alarm: {bad}")
    return 1 if bad else 0


if __name__ == "__main__":
    sys.exit(main())
