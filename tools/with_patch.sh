#!/bin/bash
# usage: with_patch.sh <patch> <command...>   -- runs the command with NW=/tmp/nw_$$ holding /repo HEAD + patch
p=$(readlink -f $1); shift
NW=/tmp/nw_$$
git -C /repo worktree add -q --detach $NW HEAD
git -C $NW apply --whitespace=nowarn $p || echo "PATCH FAILED"
export NW
eval "$@"
git -C /repo worktree remove --force $NW
