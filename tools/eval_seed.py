#!/usr/bin/env python3
"""Run every property check against a scratch worktree of /repo with one patch applied.

usage: eval_seed.py <patch.diff> [--props C01,C02] [--demo demo.py]
Prints, per property, exit code and the new violations; removes the worktree afterwards.
"""
import argparse
import json
import os
import shutil
import subprocess
import sys
import tempfile

ALL = [f"C{i:02d}" for i in range(1, 21)]


def main():
    ap = argparse.ArgumentParser()
    ap.add_argument("patch")
    ap.add_argument("--props", default=",".join(ALL))
    ap.add_argument("--demo", default=None)
    ap.add_argument("--json", default=None)
    a = ap.parse_args()
    wt = tempfile.mkdtemp(prefix="evalwt_")
    os.rmdir(wt)
    ev = tempfile.mkdtemp(prefix="evalev_")
    res = {"patch": a.patch, "checks": {}, "demo": None}
    try:
        subprocess.run(["git", "-C", "/repo", "worktree", "add", "-q", "--detach", wt, "HEAD"], check=True)
        r = subprocess.run(["git", "-C", wt, "apply", "--whitespace=nowarn", os.path.abspath(a.patch)], capture_output=True, text=True)
        if r.returncode != 0:
            print("PATCH DOES NOT APPLY:", r.stderr.strip())
            res["error"] = r.stderr
            return 3
        if a.demo:
            os.makedirs(os.path.join(wt, "_seed"), exist_ok=True)
            shutil.copy(a.demo, os.path.join(wt, "_seed", os.path.basename(a.demo)))
            d = subprocess.run(["/venv/bin/python", os.path.join("_seed", os.path.basename(a.demo))], cwd=wt, capture_output=True, text=True, timeout=600)
            res["demo"] = {"exit_with_patch": d.returncode, "tail": (d.stdout + d.stderr)[-400:]}
            print(f"demo with patch: exit {d.returncode}")
        fired = []
        for p in a.props.split(","):
            c = subprocess.run(["/venv/bin/python", "/verif/bsa/check.py", "--property", p, "--repo", wt, "--evidence-dir", ev],
                               capture_output=True, text=True)
            lines = [l for l in c.stdout.splitlines() if l.strip().startswith(("violated:", "ANALYSIS-ERROR", "VIOLATION"))]
            res["checks"][p] = {"exit": c.returncode, "lines": lines[:12]}
            if c.returncode != 0:
                fired.append(p)
                print(f"== {p} exit {c.returncode}")
                for l in lines[:6]:
                    print("   ", l[:300])
        print("FIRED:", fired or "none")
        res["fired"] = fired
    finally:
        subprocess.run(["git", "-C", "/repo", "worktree", "remove", "--force", wt], capture_output=True)
        shutil.rmtree(ev, ignore_errors=True)
        shutil.rmtree(wt, ignore_errors=True)
    if a.json:
        json.dump(res, open(a.json, "w"), indent=1)
    return 0


if __name__ == "__main__":
    sys.exit(main())
