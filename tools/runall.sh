#!/bin/bash
# usage: runall.sh <repo> [tier]  -- all 20 checks in parallel against a tree, evidence to a temp dir
repo=${1:-/repo}; tier=${2:-quick}
ev=$(mktemp -d /tmp/runall_ev.XXXX)
run() { p=$1; out=$(/venv/bin/python /verif/bsa/check.py --property $p --tier $3 --repo $2 --evidence-dir $4 2>&1); rc=$?; if [ $rc -ne 0 ]; then { echo "== $p exit $rc"; echo "$out" | grep -E "violated:|ANALYSIS-ERROR|Traceback|Error" | cut -c1-${W:-330} | head -${N:-8}; } > $4/$p.out; fi; }
export -f run
printf "C%02d\n" $(seq 1 20) | xargs -P 16 -I{} bash -c "run {} $repo $tier $ev"
cat $ev/*.out 2>/dev/null
rm -rf $ev
echo "runall done"
