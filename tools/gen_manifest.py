#!/usr/bin/env python3
"""Regenerates /verif/MANIFEST.json from the table below (single source of truth for the claims)."""
import json, os
V = os.path.dirname(os.path.dirname(os.path.abspath(__file__)))
ALL = [f"C{i:02d}" for i in range(1, 21)]
NOTE = ("static analysis decides necessary structural clauses only (DESIGN.md section 4 'decided'); the behavioural "
        "remainder listed under 'not decided' there and in the evidence file needs execution or model checking. "
        "Trusted base: Python ast, the engine in /verif/bsa (loader/constant folder, CFG with exception edges, "
        "dataflow), the may-raise model and call-resolution hints stated in DESIGN.md sections 2 and 8, and the "
        "frozen reference tables under /verif/reference.")
CLAIMS = {
 # id: (technique, text, design_ref)
}
exec(open(os.path.join(V, "tools", "claims.py")).read())
checks = []
for pid in ALL:
    if pid not in CLAIMS:
        continue
    tech, text, ref = CLAIMS[pid]
    checks.append({
        "property_id": pid,
        "quick_cmd": f"/venv/bin/python /verif/bsa/check.py --property {pid} --tier quick",
        "thorough_cmd": f"/venv/bin/python /verif/bsa/check.py --property {pid} --tier thorough",
        "evidence_file": f"/verif/evidence/{pid}.json",
        "replay_cmd_template": f"/venv/bin/python /verif/bsa/check.py --property {pid} --tier quick  # violations listed in {{path}}",
        "engine": "bsa",
        "level_claimed": {"category": "other", "text": text, "design_ref": ref},
        "level_note": NOTE,
        "technique": tech + "; all rules run on the normal form of the program (new helpers/constants inlined, spelling and "
                     "control-flow shape canonicalised - bsa/normalize.py) and value questions are answered by a term-domain abstract "
                     "interpreter (bsa/sym.py: path-wise evaluation to linear integer forms and uninterpreted terms, no solver, nothing executed)",
    })
m = {
 "version": 1,
 "setup_cmd": "/venv/bin/python -m compileall -q /verif/bsa && /venv/bin/python /verif/bsa/check.py --property SETUP",
 "hooks": {"guard": "BROMELIA_VERIF",
           "enable": "none needed: the checks read /repo's sources and instrument nothing",
           "baseline_off_cmd": "cd /repo && /venv/bin/python -m pytest -ra -q -p no:cacheprovider --timeout=900 --continue-on-collection-errors",
           "source_commits": [], "add_only": True},
 "engines": [{"name": "bsa", "path": "/verif/bsa", "serves_properties": sorted(CLAIMS),
              "kind_free_text": "repository-specific static analyser over Python ast: symbol/class table with C3 MRO, constant folder, "
                                "statement CFG with exception edges, dominators, forward dataflow (locksets, widths, residues), "
                                "path enumeration of the state classes, table/sibling cross-checks; semantics-preserving normal form "
                                "(inlining of helpers/constants introduced after the reference inventory, canonical control flow) and a "
                                "term-domain abstract interpreter on which the value-level rules are decided"}],
 "checks": checks,
 "notes": "All verdicts are computed from /repo's current source on every run; nothing in /repo is imported or executed. "
          "exit 2 + ANALYSIS-ERROR = the analysis could not decide (vanished anchor / unknown shape), never a silent pass.",
 "not_applicable": [{"property_id": p, "reason": NA.get(p, "check not built yet in this commit (static clauses planned in DESIGN.md section 4)")}
                    for p in ALL if p not in CLAIMS],
}
json.dump(m, open(os.path.join(V, "MANIFEST.json"), "w"), indent=1)
print("claimed", sorted(CLAIMS), "n/a", [p for p in ALL if p not in CLAIMS])
